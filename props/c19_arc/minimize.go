package main

import (
	"context"
	"fmt"
	"sort"
)

// Witness minimisation (greedy delta debugging over the AST). The reference interpreter is
// the oracle for every candidate, so a candidate is kept only if the REAL code still
// disagrees with the specification on it, in the same way (same stage and normalised
// message for pipeline failures; same mismatch kind, and no salient reference tag that the
// original did not have, for value mismatches). The signature is computed from the
// minimal case. Passes sweep each kind of reduction once per round (linear in the size of
// the function); rounds repeat while something shrank.

type minimizer struct {
	ctx    context.Context
	env    *hostEnv
	budget int
	tests  int
	want   func(Case, Verdict) bool
	cur    Case
	curVd  Verdict
}

func salientSet(c Case, vd Verdict) map[string]struct{} {
	set := map[string]struct{}{}
	for _, t := range vd.Tags {
		if salient(t) {
			set[t] = struct{}{}
		}
	}
	walkExprs(c.F.Body, func(e *E) { precTags(e, set) })
	return set
}

func sameClass(orig Case, ov Verdict) func(Case, Verdict) bool {
	switch ov.Kind {
	case vdPipeline:
		nm := normMsg(ov.Msg)
		return func(_ Case, v Verdict) bool {
			return v.Kind == vdPipeline && v.Stage == ov.Stage && normMsg(v.Msg) == nm
		}
	case vdPanic:
		nm := normMsg(ov.Msg)
		return func(_ Case, v Verdict) bool { return v.Kind == vdPanic && normMsg(v.Msg) == nm }
	case vdExport:
		return func(_ Case, v Verdict) bool { return v.Kind == vdExport }
	case vdMismatch:
		allowed := salientSet(orig, ov)
		trapMsg := normMsg(ov.Real.Err)
		return func(c Case, v Verdict) bool {
			if v.Kind != vdMismatch || v.MKind != ov.MKind {
				return false
			}
			if ov.MKind == "trap-not-value" && normMsg(v.Real.Err) != trapMsg {
				return false
			}
			for t := range salientSet(c, v) {
				if _, ok := allowed[t]; !ok {
					return false
				}
			}
			return true
		}
	}
	return func(Case, Verdict) bool { return false }
}

func caseSize(c Case) int {
	n := (c.F.size()-len(c.F.Params))*4 + len(c.F.Params)
	for _, call := range c.Calls {
		n += 1 + len(call)
	}
	return n
}

// exprSlots returns pointers to every *E field reachable from the function body, in
// pre-order.
func exprSlots(f *Func) []**E {
	var out []**E
	var walkE func(p **E)
	walkE = func(p **E) {
		if *p == nil {
			return
		}
		out = append(out, p)
		walkE(&(*p).A)
		walkE(&(*p).B)
	}
	var walkB func(b []*S)
	walkB = func(b []*S) {
		for _, s := range b {
			walkE(&s.X)
			for i := range s.Args {
				walkE(&s.Args[i])
			}
			walkB(s.Body)
			for i := range s.Elifs {
				walkE(&s.Elifs[i].X)
				walkB(s.Elifs[i].Body)
			}
			walkB(s.Else)
		}
	}
	walkB(f.Body)
	return out
}

type stmtPos struct {
	list *[]*S
	idx  int
}

// stmtPositions returns every statement position in pre-order.
func stmtPositions(f *Func) []stmtPos {
	var out []stmtPos
	var walk func(b *[]*S)
	walk = func(b *[]*S) {
		for i, s := range *b {
			out = append(out, stmtPos{b, i})
			if s.Body != nil {
				walk(&s.Body)
			}
			for k := range s.Elifs {
				walk(&s.Elifs[k].Body)
			}
			if s.Else != nil {
				walk(&s.Else)
			}
		}
	}
	walk(&f.Body)
	return out
}

func freeVars(e *E) map[string]bool {
	m := map[string]bool{}
	usedVars(e, m)
	return m
}

func paramSet(f *Func) map[string]bool {
	m := map[string]bool{}
	for _, p := range f.Params {
		m[p.Name] = true
	}
	return m
}

func subset(a, b map[string]bool) bool {
	for k := range a {
		if !b[k] {
			return false
		}
	}
	return true
}

// refValueOf evaluates expression e (free variables all parameters) under the reference
// on one call; ok=false when the value is not defined.
func refValueOf(f *Func, e *E, args []Value) (Value, bool) {
	tmp := &Func{Name: f.Name, Params: f.Params, Ret: e.T, Body: []*S{{K: SReturn, X: e}}}
	o := newInterp(tmp).Call(args)
	if o.Kind != oValue {
		return Value{}, false
	}
	return o.V, true
}

func (m *minimizer) spent() bool { return m.tests >= m.budget }

// accept judges a candidate and adopts it when it is smaller and fails the same way.
func (m *minimizer) accept(c Case) bool {
	if m.spent() || caseSize(c) >= caseSize(m.cur) {
		return false
	}
	m.tests++
	vd := judgeCase(m.ctx, m.env, c)
	if !m.want(c, vd) {
		return false
	}
	m.cur, m.curVd = c, vd
	return true
}

// passCalls: fewer calls.
func (m *minimizer) passCalls() bool {
	progress := false
	if len(m.cur.Calls) > 1 && !m.cur.F.Stateful && m.curVd.Kind == vdMismatch {
		if m.accept(Case{F: m.cur.F, Calls: [][]Value{m.cur.Calls[m.curVd.CallIdx]}}) {
			progress = true
		}
	}
	for i := len(m.cur.Calls) - 1; i >= 0 && len(m.cur.Calls) > 1; i-- {
		if i >= len(m.cur.Calls) {
			continue
		}
		nc := Case{F: m.cur.F}
		nc.Calls = append(nc.Calls, m.cur.Calls[:i]...)
		nc.Calls = append(nc.Calls, m.cur.Calls[i+1:]...)
		if m.accept(nc) {
			progress = true
		}
	}
	return progress
}

// passReturnSub: replace the whole body by `return <sub-expression>` for sub-expressions
// over parameters only, smallest first.
func (m *minimizer) passReturnSub() bool {
	f := m.cur.F
	if f.Stateful {
		return false
	}
	ps := paramSet(f)
	type cand struct {
		e    *E
		size int
	}
	var cs []cand
	single := len(f.Body) == 1 && f.Body[0].K == SReturn
	for _, p := range exprSlots(f) {
		e := *p
		if e.K == KLit || e.K == KVar || (single && e == f.Body[0].X) || !e.anchored() {
			continue
		}
		if !subset(freeVars(e), ps) {
			continue
		}
		cs = append(cs, cand{e, e.size()})
	}
	sort.SliceStable(cs, func(i, j int) bool { return cs[i].size < cs[j].size })
	for _, k := range cs {
		nf := &Func{Name: f.Name, Params: f.Params, Ret: k.e.T, Body: []*S{{K: SReturn, X: k.e.clone()}}}
		if m.accept(Case{F: nf, Calls: m.cur.Calls}) {
			return true
		}
		if m.spent() {
			break
		}
	}
	return false
}

// passStmts: sweep statement positions from the last to the first (removing position k
// leaves the pre-order numbering of the positions before k untouched); at each, try to
// remove the statement, replace a compound statement by one of its bodies, or drop its
// else-if / else arms.
func (m *minimizer) passStmts() bool {
	progress := false
	for k := len(stmtPositions(m.cur.F)) - 1; k >= 0 && !m.spent(); k-- {
		if k >= len(stmtPositions(m.cur.F)) {
			continue
		}
		// removal
		nf := m.cur.F.clone()
		pos := stmtPositions(nf)[k]
		s := (*pos.list)[pos.idx]
		*pos.list = append(append([]*S{}, (*pos.list)[:pos.idx]...), (*pos.list)[pos.idx+1:]...)
		if m.accept(Case{F: nf, Calls: m.cur.Calls}) {
			progress = true
			continue
		}
		nbodies := 0
		switch s.K {
		case SIf:
			nbodies = 1 + len(s.Elifs)
			if s.HasElse {
				nbodies++
			}
		case SForCond, SForInf, SForRange:
			nbodies = 1
		}
		done := false
		for bi := 0; bi < nbodies && !done; bi++ {
			nf2 := m.cur.F.clone()
			p2 := stmtPositions(nf2)[k]
			s2 := (*p2.list)[p2.idx]
			var inner []*S
			switch {
			case s2.K != SIf || bi == 0:
				inner = s2.Body
			case bi-1 < len(s2.Elifs):
				inner = s2.Elifs[bi-1].Body
			default:
				inner = s2.Else
			}
			*p2.list = append(append(append([]*S{}, (*p2.list)[:p2.idx]...), inner...), (*p2.list)[p2.idx+1:]...)
			if m.accept(Case{F: nf2, Calls: m.cur.Calls}) {
				progress, done = true, true
			}
		}
		if !done && s.K == SIf && (len(s.Elifs) > 0 || s.HasElse) {
			nf3 := m.cur.F.clone()
			p3 := stmtPositions(nf3)[k]
			s3 := (*p3.list)[p3.idx]
			s3.Elifs, s3.Else, s3.HasElse = nil, nil, false
			if m.accept(Case{F: nf3, Calls: m.cur.Calls}) {
				progress = true
			}
		}
	}
	return progress
}

// passExprs: sweep expression slots front to back (a reduction at slot k leaves the slots
// before k untouched; k is retried after a success): node -> same-typed child; node ->
// fresh parameter holding the node's reference value (single call, non-stateful,
// parameters-only nodes).
func (m *minimizer) passExprs() bool {
	progress := false
	for k := 0; !m.spent(); k++ {
		slots := exprSlots(m.cur.F)
		if k >= len(slots) {
			break
		}
		e := *slots[k]
		if e.K == KLit || e.K == KVar {
			continue
		}
		reduced := false
		for _, ch := range []*E{e.A, e.B} {
			if ch != nil && ch.T == e.T && (ch.anchored() || !e.anchored()) {
				nf := m.cur.F.clone()
				*exprSlots(nf)[k] = ch.clone()
				if m.accept(Case{F: nf, Calls: m.cur.Calls}) {
					reduced = true
					break
				}
			}
		}
		f := m.cur.F
		if !reduced && !f.Stateful && len(m.cur.Calls) == 1 && e.size() >= 2 && subset(freeVars(e), paramSet(f)) {
			if v, ok := refValueOf(f, e, m.cur.Calls[0]); ok {
				nf := f.clone()
				ps := paramSet(f)
				name := fmt.Sprintf("q%d", len(nf.Params))
				for ps[name] {
					name += "x"
				}
				nf.Params = append(nf.Params, Param{Name: name, T: e.T})
				*exprSlots(nf)[k] = mkVar(name, e.T)
				call := append(append([]Value{}, m.cur.Calls[0]...), v)
				if m.accept(Case{F: nf, Calls: [][]Value{call}}) {
					reduced = true
				}
			}
		}
		if reduced {
			progress = true
			k-- // look at the new occupant of this slot
		}
	}
	return progress
}

// passParams: drop unused parameters.
func (m *minimizer) passParams() bool {
	progress := false
	for pi := len(m.cur.F.Params) - 1; pi >= 0 && !m.spent(); pi-- {
		f := m.cur.F
		if pi >= len(f.Params) {
			continue
		}
		used := map[string]bool{}
		walkExprs(f.Body, func(e *E) { usedVars(e, used) })
		if used[f.Params[pi].Name] {
			continue
		}
		nf := f.clone()
		nf.Params = append(append([]Param{}, f.Params[:pi]...), f.Params[pi+1:]...)
		nc := Case{F: nf}
		for _, call := range m.cur.Calls {
			nc.Calls = append(nc.Calls, append(append([]Value{}, call[:pi]...), call[pi+1:]...))
		}
		if m.accept(nc) {
			progress = true
		}
	}
	return progress
}

// minimize returns the smallest case found that fails like (c, vd), its verdict and the
// number of candidate builds spent.
func minimize(ctx context.Context, env *hostEnv, c Case, vd Verdict, budget int) (Case, Verdict, int) {
	to := minimiseTimeout
	if vd.Kind == vdMismatch && vd.MKind == mkNonterm {
		to = minimiseNontermTimeout
	}
	m := &minimizer{ctx: withCallTimeout(ctx, to), env: env, budget: budget, want: sameClass(c, vd), cur: c, curVd: vd}
	for round := 0; round < 5 && !m.spent(); round++ {
		progress := m.passCalls()
		progress = m.passReturnSub() || progress
		progress = m.passStmts() || progress
		progress = m.passExprs() || progress
		progress = m.passParams() || progress
		if !progress {
			break
		}
	}
	return m.cur, m.curVd, m.tests
}
