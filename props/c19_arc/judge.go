package main

import (
	"context"
	"fmt"
	"regexp"
	"runtime/debug"
	"strings"
	"sync/atomic"
	"time"

	"github.com/tetratelabs/wazero/api"
)

// ---------------------------------------------------------------------------------------
// Running the real code
// ---------------------------------------------------------------------------------------

type realOutcome struct {
	Trapped bool
	Timeout bool
	V       Value
	Err     string
}

func (o realOutcome) String() string {
	if o.Timeout {
		return "timeout"
	}
	if o.Trapped {
		return "trap(" + o.Err + ")"
	}
	return o.V.String()
}

var wasmTypeOf = map[Typ]api.ValueType{
	I8: api.ValueTypeI32, I16: api.ValueTypeI32, I32: api.ValueTypeI32, U8: api.ValueTypeI32, U16: api.ValueTypeI32, U32: api.ValueTypeI32,
	I64: api.ValueTypeI64, U64: api.ValueTypeI64, F32: api.ValueTypeF32, F64: api.ValueTypeF64,
}

// exportProblem checks the exported function against spec.md "Type mapping".
func exportProblem(b *built, f *Func) string {
	fn := b.mod.ExportedFunction(f.Name)
	if fn == nil {
		return "no export named after the function"
	}
	def := fn.Definition()
	if len(def.ParamTypes()) != len(f.Params) {
		return fmt.Sprintf("export takes %d parameters, function declares %d", len(def.ParamTypes()), len(f.Params))
	}
	for i, p := range f.Params {
		if def.ParamTypes()[i] != wasmTypeOf[p.T] {
			return fmt.Sprintf("parameter %d (%s) has wasm type %s", i, p.T, api.ValueTypeName(def.ParamTypes()[i]))
		}
	}
	if len(def.ResultTypes()) != 1 || def.ResultTypes()[0] != wasmTypeOf[f.Ret] {
		return fmt.Sprintf("result types %v for return type %s", def.ResultTypes(), f.Ret)
	}
	return ""
}

// Watchdogs for a real call. A call that does not return is a verdict only when the
// reference interpreter finished the same call in fewer than nontermStmtLimit statements:
// then seconds of wall clock stand against microseconds of work whatever the machine's
// load, and the call is reported as call-does-not-terminate. Otherwise a timeout is
// inconclusive. Candidates tried during minimisation get shorter watchdogs (the minimal
// case is re-run under the full one before it is reported).
const (
	callTimeout            = 10 * time.Second
	minimiseTimeout        = 100 * time.Millisecond
	minimiseNontermTimeout = 500 * time.Millisecond
	nontermStmtLimit       = 10000
	mkNonterm              = "call-does-not-terminate"
)

type timeoutKey struct{}

func withCallTimeout(ctx context.Context, d time.Duration) context.Context {
	return context.WithValue(ctx, timeoutKey{}, d)
}

func realCall(ctx context.Context, b *built, f *Func, args []Value) (out realOutcome) {
	fn := b.mod.ExportedFunction(f.Name)
	raw := make([]uint64, len(args))
	for i, a := range args {
		raw[i] = encodeArg(a)
	}
	to := callTimeout
	if d, ok := ctx.Value(timeoutKey{}).(time.Duration); ok {
		to = d
	}
	cctx, cancel := context.WithTimeout(ctx, to)
	defer cancel()
	defer func() {
		if r := recover(); r != nil {
			out = realOutcome{Trapped: true, Err: fmt.Sprintf("go panic escaped Call: %v", r)}
		}
	}()
	res, err := fn.Call(cctx, raw...)
	if err != nil {
		if cctx.Err() != nil {
			return realOutcome{Timeout: true, Err: err.Error()}
		}
		msg := err.Error()
		if i := strings.Index(msg, "\n"); i >= 0 {
			msg = msg[:i]
		}
		return realOutcome{Trapped: true, Err: msg}
	}
	if len(res) != 1 {
		return realOutcome{Trapped: true, Err: fmt.Sprintf("call returned %d results", len(res))}
	}
	return realOutcome{V: decodeResult(f.Ret, res[0])}
}

// buildSafe: build() with panics of the pipeline turned into a result.
func buildSafe(ctx context.Context, env *hostEnv, src string) (b *built, panicMsg string) {
	defer func() {
		if r := recover(); r != nil {
			panicMsg = fmt.Sprintf("%v\n%s", r, debug.Stack())
			b = nil
		}
	}()
	return build(ctx, env, src), ""
}

// ---------------------------------------------------------------------------------------
// Cases and verdicts
// ---------------------------------------------------------------------------------------

// Case: one function and a sequence of calls made on one instance (one state).
type Case struct {
	F     *Func     `json:"func"`
	Calls [][]Value `json:"calls"`
}

type verdictKind int

const (
	vdOK       verdictKind = iota
	vdRejected             // parser / analyzer produced diagnostics: not judged
	vdPipeline             // accepted, but compile / validate / instantiate failed
	vdPanic                // a Go panic escaped the pipeline
	vdExport               // export missing or with the wrong wasm signature
	vdMismatch             // a call's outcome differs from the specification's
	vdTimeout              // real call did not return (watchdog): inconclusive
)

type Verdict struct {
	Kind     verdictKind
	Stage    stage  // vdRejected / vdPipeline
	Msg      string // diagnostics / error / panic text
	CallIdx  int    // vdMismatch
	MKind    string // wrong-value | trap-not-value | value-not-error
	Ref      Outcome
	Real     realOutcome
	Tags     []string // reference tags of the mismatching call
	Judged   int      // calls compared
	Silent   map[string]int
	ErrAgree int
}

var nodeKeyCtr atomic.Int64

func freshKey() string { return fmt.Sprintf("n%d", nodeKeyCtr.Add(1)) }

// compareCall returns "" when real agrees with ref.
func compareCall(ref Outcome, real realOutcome) string {
	switch ref.Kind {
	case oValue:
		if real.Trapped {
			return "trap-not-value"
		}
		if !sameValue(ref.V, real.V) {
			return "wrong-value"
		}
	case oError:
		if !real.Trapped {
			return "value-not-error"
		}
	}
	return ""
}

// seqTags: the reference tags relevant to a mismatching call. For a stateful function
// the state at the failing call was produced by the earlier calls of the sequence, so
// their tags count too.
func seqTags(acc map[string]struct{}, in *Interp) []string {
	if !in.f.Stateful {
		return in.Tags()
	}
	out := make([]string, 0, len(acc))
	for t := range acc {
		out = append(out, t)
	}
	sortStrings(out)
	return out
}

// runCalls runs the case's calls against an already built module. Stops at the first
// mismatch, runtime error or silent outcome of a stateful function (the state after those
// is not defined).
func runCalls(ctx context.Context, b *built, c Case) Verdict {
	vd := Verdict{Kind: vdOK, Silent: map[string]int{}}
	in := newInterp(c.F)
	acc := map[string]struct{}{}
	b.state.SetNodeKey(freshKey())
	for i, args := range c.Calls {
		ref := in.Call(args)
		for _, t := range in.Tags() {
			acc[t] = struct{}{}
		}
		if ref.Kind == oSilent {
			vd.Silent[ref.Reason]++
			if c.F.Stateful {
				break
			}
			continue
		}
		real := realCall(ctx, b, c.F, args)
		if real.Timeout {
			if in.Stmts() < nontermStmtLimit {
				vd.Kind, vd.CallIdx, vd.MKind, vd.Ref, vd.Real, vd.Tags = vdMismatch, i, mkNonterm, ref, real, seqTags(acc, in)
				vd.Real.Err = "" // the error text carries the watchdog's duration
				return vd
			}
			vd.Kind, vd.CallIdx, vd.Ref, vd.Real = vdTimeout, i, ref, real
			return vd
		}
		vd.Judged++
		if mk := compareCall(ref, real); mk != "" {
			vd.Kind, vd.CallIdx, vd.MKind, vd.Ref, vd.Real, vd.Tags = vdMismatch, i, mk, ref, real, seqTags(acc, in)
			return vd
		}
		if ref.Kind == oError {
			vd.ErrAgree++
			if c.F.Stateful {
				break
			}
		}
	}
	return vd
}

// judgeCase builds a one-function program for the case and judges it.
func judgeCase(ctx context.Context, env *hostEnv, c Case) Verdict {
	src := c.F.String()
	b, pmsg := buildSafe(ctx, env, src)
	if b == nil {
		return Verdict{Kind: vdPanic, Msg: pmsg}
	}
	defer b.Close(ctx)
	switch {
	case b.stage == stParse || b.stage == stAnalyze:
		return Verdict{Kind: vdRejected, Stage: b.stage, Msg: b.diag}
	case b.stage != stOK:
		return Verdict{Kind: vdPipeline, Stage: b.stage, Msg: b.diag}
	}
	if p := exportProblem(b, c.F); p != "" {
		return Verdict{Kind: vdExport, Msg: p}
	}
	if c.F.NoRef {
		return Verdict{Kind: vdOK}
	}
	return runCalls(ctx, b, c)
}

// ---------------------------------------------------------------------------------------
// Message normalisation and signatures
// ---------------------------------------------------------------------------------------

var (
	reQuoted = regexp.MustCompile(`'[^']*'|"[^"]*"`)
	reNum    = regexp.MustCompile(`-?\d+(\.\d+)?(e[+-]?\d+)?`)
	rePos    = regexp.MustCompile(`^\d+:\d+\s+`)
	reType   = regexp.MustCompile(`\b([iuf])(8|16|32|64)\b`)
	reSpace  = regexp.MustCompile(`\s+`)
	reFnIdx  = regexp.MustCompile(`invalid function\[\d+\]( export\[[^\]]*\])?:\s*`)
)

// normMsg makes an error text structural: no names, numbers, positions; types kept only
// as a class letter.
func normMsg(msg string) string {
	if i := strings.Index(msg, "\n"); i >= 0 {
		msg = msg[:i]
	}
	msg = reFnIdx.ReplaceAllString(msg, "")
	msg = rePos.ReplaceAllString(msg, "")
	// keep the innermost clause(s) of wrapped errors: the compiler wraps every error in
	// "failed to compile <where>:" context that says nothing about the cause
	parts := strings.Split(msg, ": ")
	for len(parts) > 1 && strings.HasPrefix(parts[0], "failed to compile") {
		parts = parts[1:]
	}
	if len(parts) > 3 {
		parts = parts[len(parts)-3:]
	}
	msg = strings.Join(parts, ": ")
	msg = strings.ReplaceAll(msg, "'if'", "if")
	msg = reQuoted.ReplaceAllString(msg, "X")
	msg = reType.ReplaceAllString(msg, "T")
	msg = reNum.ReplaceAllString(msg, "N")
	msg = strings.ToLower(reSpace.ReplaceAllString(strings.TrimSpace(msg), "-"))
	msg = regexp.MustCompile(`[^a-z0-9_.-]+`).ReplaceAllString(msg, "")
	if len(msg) > 110 {
		msg = msg[:110]
	}
	return msg
}

// primary tags name a feature of the specification whose exercise changes a value;
// secondary ones only describe the path taken. Signatures carry the primary tags, or the
// secondary ones when there is no primary tag.
var primaryPrefixes = []string{"wrap.", "cast.trunc.", "cast.sat.", "cast.f2i-sat.", "sc.", "bool.nonnormal", "float.nan-compare", "divzero", "prec.", "pow.exp-", "hint."}
var secondaryPrefixes = []string{"ctl.", "cast.i2f-inexact", "cast.i2f-unsigned-msb", "cast.i2f-negative", "cast.f2i-fraction", "cmp.", "stateful.reloaded", "loop.", "if.", "float.nan", "float.inf"}

func hasPrefixOf(tag string, ps []string) bool {
	for _, p := range ps {
		if strings.HasPrefix(tag, p) {
			return true
		}
	}
	return false
}

func primary(tag string) bool { return hasPrefixOf(tag, primaryPrefixes) }
func salient(tag string) bool { return primary(tag) || hasPrefixOf(tag, secondaryPrefixes) }

// shape: operator skeleton of an expression; leaves are dropped.
func shape(e *E) string {
	if e == nil {
		return ""
	}
	var head string
	switch e.K {
	case KLit, KVar:
		return ""
	case KNeg:
		head = "neg." + e.T.String()
	case KNot:
		head = "not"
	case KArith:
		head = opName(e.Op) + "." + e.T.String()
	case KCmp:
		head = opName(e.Op) + "." + e.A.T.String()
	case KLogic:
		head = e.Op
	case KCast:
		head = "cast." + e.A.T.String() + "-" + e.T.String()
	}
	a, b := shape(e.A), shape(e.B)
	switch {
	case a != "" && b != "":
		return head + "/{" + a + "&" + b + "}"
	case a != "":
		return head + "/" + a
	case b != "":
		return head + "/" + b
	}
	return head
}

// stmtKinds collects the statement kinds present in a body.
func stmtKinds(body []*S, into map[string]struct{}) {
	for _, s := range body {
		switch s.K {
		case SDecl:
			if s.Explicit {
				into["decl"] = struct{}{}
			} else {
				into["decl-inferred"] = struct{}{}
			}
		case SState:
			into["state"] = struct{}{}
		case SAssign:
			into["assign"] = struct{}{}
		case SCompound:
			into["compound-"+opName(s.Op)] = struct{}{}
		case SIf:
			into["if"] = struct{}{}
			if len(s.Elifs) > 0 {
				into["elif"] = struct{}{}
			}
			if s.HasElse {
				into["else"] = struct{}{}
			}
		case SForRange:
			into[fmt.Sprintf("range%d", len(s.Args))] = struct{}{}
		case SForCond:
			into["forcond"] = struct{}{}
		case SForInf:
			into["forinf"] = struct{}{}
		case SBreak:
			into["break"] = struct{}{}
		case SContinue:
			into["continue"] = struct{}{}
		case SReturn:
			into["ret"] = struct{}{}
		}
		stmtKinds(s.Body, into)
		stmtKinds(s.Else, into)
		for _, ei := range s.Elifs {
			stmtKinds(ei.Body, into)
		}
	}
}

// funcShape: for `return <expr>` functions the operator skeleton of the expression; for
// anything else the set of statement kinds left after minimisation (the full structure is
// in the witness; it would make nearly every signature unique).
func funcShape(f *Func) string {
	if len(f.Body) == 1 && f.Body[0].K == SReturn {
		s := shape(f.Body[0].X)
		if s == "" {
			s = "leaf"
		}
		return s
	}
	set := map[string]struct{}{}
	stmtKinds(f.Body, set)
	ks := make([]string, 0, len(set))
	for k := range set {
		ks = append(ks, k)
	}
	sortStrings(ks)
	return "stmts[" + strings.Join(ks, ",") + "]"
}

// precTags: places where the printed text relies on a precedence rule on which spec.md's
// table and a conventional "unary binds tightest" reading differ.
func precTags(e *E, into map[string]struct{}) {
	if e == nil {
		return
	}
	if (e.K == KNeg || e.K == KNot) && e.A.K == KArith && e.A.Op == "^" {
		into["prec.unary-over-pow"] = struct{}{}
	}
	// a bare literal as the LEFT operand: its type comes from the right operand under the
	// specification's reading; a compiler that types it from an outer context (cast
	// target, declared type, left side of an enclosing comparison) goes wrong here
	if (e.K == KArith || e.K == KCmp) && !e.A.anchored() && e.B.anchored() {
		into["hint.left-bare-literal"] = struct{}{}
	}
	precTags(e.A, into)
	precTags(e.B, into)
}

func walkExprs(body []*S, fn func(*E)) {
	for _, s := range body {
		if s.X != nil {
			fn(s.X)
		}
		for _, a := range s.Args {
			fn(a)
		}
		walkExprs(s.Body, fn)
		walkExprs(s.Else, fn)
		for _, ei := range s.Elifs {
			fn(ei.X)
			walkExprs(ei.Body, fn)
		}
	}
}

func signatureOf(c Case, vd Verdict) string {
	switch vd.Kind {
	case vdPipeline:
		k := map[stage]string{stCompile: "compile-fails", stValidate: "invalid-module", stInstantiate: "instantiate-fails"}[vd.Stage]
		return "c19:" + k + ":" + normMsg(vd.Msg) + ":" + funcShape(c.F)
	case vdPanic:
		return "c19:panic:" + normMsg(vd.Msg)
	case vdExport:
		return "c19:export-signature:" + normMsg(vd.Msg)
	case vdMismatch:
		set := map[string]struct{}{}
		for _, t := range vd.Tags {
			if salient(t) {
				set[t] = struct{}{}
			}
		}
		walkExprs(c.F.Body, func(e *E) { precTags(e, set) })
		tags := make([]string, 0, len(set))
		anyPrimary := false
		for t := range set {
			anyPrimary = anyPrimary || primary(t)
		}
		for t := range set {
			if !anyPrimary || primary(t) {
				tags = append(tags, t)
			}
		}
		sortStrings(tags)
		ts := strings.Join(tags, ",")
		if ts == "" {
			ts = "plain"
		}
		extra := ""
		if vd.MKind == "trap-not-value" {
			extra = ":" + normMsg(vd.Real.Err)
		}
		return "c19:" + vd.MKind + extra + ":" + ts + ":" + funcShape(c.F)
	}
	return "c19:unknown"
}

func sortStrings(s []string) {
	for i := 1; i < len(s); i++ {
		for j := i; j > 0 && s[j] < s[j-1]; j-- {
			s[j], s[j-1] = s[j-1], s[j]
		}
	}
}
