package main

import (
	"fmt"
	"math"
	"strconv"

	"verif/lib/prng"
)

// Type-directed generator of well-typed Arc functions over the ten scalar numeric types.
// Every node carries the type spec.md assigns to it; bare literals are placed only where
// the context (declared type, return type, assignment target) or the other operand fixes
// their type, and only with values that type can represent.

type vkind int

const (
	vParam vkind = iota
	vLocal
	vState
	vLoop
)

type gvar struct {
	name string
	t    Typ
	kind vkind
	ro   int // >0: may not be assigned (loop variable, loop bound input, loop counter)
	// counter: the counter of an enclosing conditional / infinite loop (non-negative,
	// changes every iteration): a good selector for if-chains
	counter bool
}

type G struct {
	r        *prng.R
	vars     []*gvar
	ctr      int
	ret      Typ
	loops    int // nesting depth of loops at the point of generation
	maxExpr  int
	quirk    string // one deliberately odd construct to place (see quirks), "" = none
	quirkHit bool
	// control-flow oriented generation (genCtlFunc): acc is an i64 accumulator whose
	// updates (acc = acc * 3 + c, order-sensitive) make the executed path observable;
	// hints collects, per parameter, the constants its selector conditions compare it to
	// (and their neighbours) so that the argument vectors drive every arm.
	ctl   bool
	acc   string
	hints map[string][]Value
}

var floatTexts = []string{
	"0.0", "1.0", "2.0", "3.0", "0.5", "0.25", "1.5", "2.5", "10.0", "100.0", "0.1", "0.3",
	"3.14159", "1000000.0", "127.0", "128.0", "255.0", "256.0", "32767.0", "32768.0",
	"65535.0", "65536.0", "16777216.0", "16777217.0", "2147483647.0", "2147483648.0",
	"4294967295.0", "4294967296.0", "9007199254740993.0", "9223372036854775807.0",
	"18446744073709551616.0", "0.000001", "123456.789", "7.999", "1.", ".5",
}

var smallInts = []uint64{0, 1, 2, 3, 4, 5, 7, 8, 10, 16, 31, 32, 63, 64, 100, 127, 128, 129, 200, 255, 256, 257,
	1000, 32767, 32768, 65535, 65536, 65537, 1 << 24, 1<<31 - 1, 1 << 31, 1<<32 - 1, 1 << 32, 1 << 53, 1<<63 - 1}

func maxOf(t Typ) uint64 {
	if t.Signed() {
		return 1<<(uint(t.Bits())-1) - 1
	}
	if t.Bits() == 64 {
		return math.MaxUint64
	}
	return 1<<uint(t.Bits()) - 1
}

func (g *G) fresh(prefix string) string {
	g.ctr++
	return fmt.Sprintf("%s%d", prefix, g.ctr)
}

func (g *G) pickType() Typ    { return allTyps[g.r.Intn(len(allTyps))] }
func (g *G) pickIntType() Typ { return intTyps[g.r.Intn(len(intTyps))] }

func (g *G) varsOf(t Typ, mutable bool) []*gvar {
	var out []*gvar
	for _, v := range g.vars {
		if v.t == t && (!mutable || (v.ro == 0 && v.kind != vLoop)) {
			out = append(out, v)
		}
	}
	return out
}

// literal of type t. Integer literal tokens are unsigned digit strings not above the i64
// maximum (the lexer has no sign and the language's default integer type is i64).
func (g *G) lit(t Typ, bare bool) *E {
	if t.IsFloat() {
		for tries := 0; tries < 8; tries++ {
			text := floatTexts[g.r.Intn(len(floatTexts))]
			e := litFloat(t, text, bare)
			if t == F32 {
				// keep only literals on which "f32 literal" and "f64 literal cast to f32"
				// agree, so the value does not depend on which reading is taken
				f64, _ := strconv.ParseFloat(text, 64)
				if float32(f64) != e.V.F32() || math.IsInf(float64(e.V.F32()), 0) {
					continue
				}
			}
			return e
		}
		return litFloat(t, "1.0", bare)
	}
	m := maxOf(t)
	if m > math.MaxInt64 {
		m = math.MaxInt64
	}
	var x uint64
	switch g.r.Intn(10) {
	case 0:
		x = m
	case 1:
		x = m - 1
	case 2, 3, 4:
		x = uint64(g.r.Intn(8))
	default:
		x = smallInts[g.r.Intn(len(smallInts))]
		if x > m {
			x = x % (m + 1)
		}
	}
	return litInt(t, x, bare)
}

// smallLit: literal in [lo,hi] of int type t
func (g *G) smallLit(t Typ, lo, hi int, bare bool) *E {
	return litInt(t, uint64(g.r.Range(lo, hi)), bare)
}

func (g *G) leaf(t Typ, needAnchor bool) *E {
	vs := g.varsOf(t, false)
	if len(vs) > 0 && g.r.Chance(13, 20) {
		v := vs[g.r.Intn(len(vs))]
		return mkVar(v.name, v.t)
	}
	if len(g.vars) > 0 && g.r.Chance(1, 4) {
		v := g.vars[g.r.Intn(len(g.vars))]
		if v.t != t && !(v.t.IsInt() && t.IsInt() && v.t.Signed() != t.Signed() && v.t.Bits() != t.Bits() && !g.r.Chance(1, 4)) {
			return mkCast(t, mkVar(v.name, v.t))
		}
		if v.t == t {
			return mkVar(v.name, v.t)
		}
	}
	bare := !needAnchor && g.r.Chance(3, 5)
	l := g.lit(t, bare)
	if (t.Signed() || t.IsFloat()) && g.r.Chance(1, 5) {
		return mkNeg(l)
	}
	return l
}

var arithOps = []string{"+", "+", "+", "-", "-", "-", "*", "*", "*", "/", "/", "%", "%", "^"}
var cmpOps = []string{"==", "!=", "<", ">", "<=", ">="}

// expr generates an expression of type t. needAnchor: the expression must carry its own
// type (no context to take it from).
func (g *G) expr(t Typ, depth int, needAnchor bool) *E {
	if depth <= 0 || g.r.Chance(1, 7) {
		return g.leaf(t, needAnchor)
	}
	n := g.r.Intn(100)
	if t == U8 {
		switch {
		case n < 35:
			return g.cmp(depth)
		case n < 50:
			op := "and"
			if g.r.Bool() {
				op = "or"
			}
			return mkLogic(op, g.expr(U8, depth-1, true), g.expr(U8, depth-1, true))
		case n < 58:
			return mkNot(g.expr(U8, depth-1, true))
		}
	}
	switch {
	case n < 68:
		return g.arith(t, depth, needAnchor)
	case n < 76 && (t.Signed() || t.IsFloat()):
		return mkNeg(g.expr(t, depth-1, needAnchor))
	case n < 95:
		return mkCast(t, g.expr(g.castSource(t), depth-1, true))
	}
	return g.leaf(t, needAnchor)
}

// swapOK decides whether the (possibly unanchored) operand b may go on the left. A bare
// literal as the LEFT operand is legal but is kept rare (1 in 8): on the pinned tree it
// very often makes the compiler fail or emit an invalid module (a recorded finding), and a
// failed program hides its other functions.
func (g *G) swapOK(b *E) bool {
	if !b.anchored() {
		return g.r.Chance(1, 8)
	}
	return g.r.Bool()
}

// castSource picks the operand type of a cast to t. Integer casts that change signedness
// AND width are defined by spec.md only for values the target can hold (otherwise the
// truncation and saturation rules conflict), so they are drawn less often (1 in 4) than
// the fully defined pairs.
func (g *G) castSource(t Typ) Typ {
	for tries := 0; tries < 6; tries++ {
		from := g.pickType()
		if from == t && g.r.Chance(4, 5) {
			continue
		}
		if from.IsInt() && t.IsInt() && from.Signed() != t.Signed() && from.Bits() != t.Bits() && !g.r.Chance(1, 4) {
			continue
		}
		return from
	}
	return g.pickType()
}

func (g *G) cmp(depth int) *E {
	ot := g.pickType()
	op := cmpOps[g.r.Intn(len(cmpOps))]
	a := g.expr(ot, depth-1, true)
	b := g.expr(ot, depth-1, false)
	if g.swapOK(b) {
		a, b = b, a
	}
	return mkCmp(op, a, b)
}

func (g *G) arith(t Typ, depth int, needAnchor bool) *E {
	op := arithOps[g.r.Intn(len(arithOps))]
	if t.IsFloat() && op == "%" {
		op = "*"
	}
	var a, b *E
	switch {
	case op == "^":
		a = g.expr(t, depth-1, true)
		if t.IsInt() && g.r.Chance(7, 10) {
			b = g.smallLit(t, 0, 5, g.r.Bool())
		} else if t.IsFloat() && g.r.Chance(7, 10) {
			b = litFloat(t, []string{"0.0", "1.0", "2.0", "3.0", "4.0"}[g.r.Intn(5)], g.r.Bool())
		} else {
			b = g.expr(t, depth-1, false)
		}
		return mkArith(op, a, b)
	case (op == "/" || op == "%") && g.r.Chance(3, 5):
		a = g.expr(t, depth-1, true)
		if t.IsFloat() {
			b = litFloat(t, []string{"2.0", "3.0", "0.5", "10.0", "7.999"}[g.r.Intn(5)], g.r.Bool())
		} else {
			b = g.smallLit(t, 1, 9, g.r.Bool())
		}
		return mkArith(op, a, b)
	}
	// at least one operand anchored, on a random side
	a = g.expr(t, depth-1, true)
	b = g.expr(t, depth-1, false)
	if g.swapOK(b) {
		a, b = b, a
	}
	return mkArith(op, a, b)
}

// ---------------------------------------------------------------------------------------
// Statements
// ---------------------------------------------------------------------------------------

type blockOpts struct {
	n        int  // statements to attempt
	depth    int  // nesting budget
	mayRet   bool // early return allowed
	noFinalD bool // the block must not end in a diverging statement
	pDiv     int  // percent chance that the block ends in break/continue (inside loops)
	pRet     int  // percent chance that the block ends in an early return
}

// block returns the statements and whether the block certainly diverges (ends in
// return/break/continue).
func (g *G) block(o blockOpts) ([]*S, bool) {
	mark := len(g.vars)
	defer func() { g.vars = g.vars[:mark] }()
	return g.stmts(o)
}

// bump: acc = acc * 3 + c — an order-sensitive trace of the path taken.
func (g *G) bump() *S {
	g.ctr++
	var add *E
	if lv := g.loopish(); lv != nil && g.r.Chance(3, 10) {
		add = mkVar(lv.name, lv.t)
		if lv.t != I64 {
			add = mkCast(I64, add)
		}
	} else {
		add = litInt(I64, uint64(1+g.ctr%89), true)
	}
	x := mkArith("+", mkArith("*", mkVar(g.acc, I64), litInt(I64, 3, true)), add)
	return &S{K: SAssign, Name: g.acc, T: I64, X: x}
}

// loopish returns a loop variable or loop counter in scope (innermost preferred).
func (g *G) loopish() *gvar {
	var c []*gvar
	for _, v := range g.vars {
		if v.kind == vLoop || (v.kind == vLocal && v.counter) {
			c = append(c, v)
		}
	}
	if len(c) == 0 {
		return nil
	}
	if g.r.Chance(3, 5) {
		return c[len(c)-1]
	}
	return c[g.r.Intn(len(c))]
}

// stmts generates statements into the current scope (declarations stay visible to the
// caller).
func (g *G) stmts(o blockOpts) ([]*S, bool) {
	var out []*S
	maxLoops := 2
	if g.ctl {
		maxLoops = 3
	}
	for i := 0; i < o.n; i++ {
		if i == o.n-1 && !o.noFinalD {
			roll := g.r.Intn(100)
			if g.loops > 0 && roll < o.pDiv {
				k := SBreak
				if g.r.Bool() {
					k = SContinue
				}
				out = append(out, &S{K: k})
				return out, true
			}
			if o.mayRet && roll >= o.pDiv && roll < o.pDiv+o.pRet {
				out = append(out, &S{K: SReturn, X: g.expr(g.ret, g.maxExpr-1, false)})
				return out, true
			}
		}
		n := g.r.Intn(100)
		if g.ctl {
			switch {
			case n < 28 && g.acc != "":
				out = append(out, g.bump())
			case n < 62 && o.depth > 0:
				out = append(out, g.ifStmt(o))
			case n < 78 && o.depth > 0 && g.loops < maxLoops:
				out = append(out, g.loop(o)...)
			case n < 88:
				if s := g.assign(); s != nil {
					out = append(out, s)
				} else {
					out = append(out, g.decl())
				}
			default:
				out = append(out, g.decl())
			}
			continue
		}
		switch {
		case n < 22:
			out = append(out, g.decl())
		case n < 40:
			if s := g.assign(); s != nil {
				out = append(out, s)
			} else {
				out = append(out, g.decl())
			}
		case n < 54:
			if s := g.compound(); s != nil {
				out = append(out, s)
			} else {
				out = append(out, g.decl())
			}
		case n < 74 && o.depth > 0:
			out = append(out, g.ifStmt(o))
		case n < 90 && o.depth > 0 && g.loops < maxLoops:
			out = append(out, g.loop(o)...)
		default:
			out = append(out, g.decl())
		}
	}
	return out, false
}

func (g *G) decl() *S {
	t := g.pickType()
	name := g.fresh("v")
	var s *S
	if g.r.Chance(3, 5) {
		s = &S{K: SDecl, Name: name, T: t, Explicit: true, X: g.expr(t, g.maxExpr-1, false)}
	} else if (t == I64 || t == F64) && g.r.Chance(1, 3) {
		// inferred from a bare literal: "Integer literals default to i64, float literals to f64"
		s = &S{K: SDecl, Name: name, T: t, X: g.lit(t, true)}
	} else {
		s = &S{K: SDecl, Name: name, T: t, X: g.expr(t, g.maxExpr-1, true)}
	}
	g.vars = append(g.vars, &gvar{name: name, t: t, kind: vLocal})
	return s
}

func (g *G) mutableVar() *gvar {
	var c []*gvar
	for _, v := range g.vars {
		if v.ro == 0 && v.kind != vLoop {
			c = append(c, v)
		}
	}
	if len(c) == 0 {
		return nil
	}
	return c[g.r.Intn(len(c))]
}

func (g *G) assign() *S {
	v := g.mutableVar()
	if v == nil {
		return nil
	}
	return &S{K: SAssign, Name: v.name, T: v.t, X: g.expr(v.t, g.maxExpr-1, false)}
}

func (g *G) compound() *S {
	v := g.mutableVar()
	if v == nil {
		return nil
	}
	ops := []string{"+", "-", "*", "/", "%"}
	op := ops[g.r.Intn(len(ops))]
	if v.t.IsFloat() && op == "%" {
		op = "+"
	}
	var x *E
	if (op == "/" || op == "%") && g.r.Chance(3, 4) {
		if v.t.IsFloat() {
			x = litFloat(v.t, "2.0", g.r.Bool())
		} else {
			x = g.smallLit(v.t, 1, 9, g.r.Bool())
		}
	} else {
		x = g.expr(v.t, g.maxExpr-2, false)
	}
	return &S{K: SCompound, Name: v.name, T: v.t, Op: op, X: x}
}

// selectorCond: a variable in scope (loop variables and counters preferred, then
// parameters and locals) compared with a small constant, so that the arms of a chain are
// all reachable: by the iterations of the enclosing loop, or by the argument vectors,
// which get the constants and their neighbours as hints.
func (g *G) selectorCond() *E {
	v := g.loopish()
	if v == nil || g.r.Chance(3, 10) {
		var c []*gvar
		for _, x := range g.vars {
			if x.name != g.acc {
				c = append(c, x)
			}
		}
		if len(c) == 0 {
			return nil
		}
		v = c[g.r.Intn(len(c))]
	}
	t := v.t
	hint := func(vals ...Value) {
		if v.kind == vParam && g.hints != nil {
			g.hints[v.name] = append(g.hints[v.name], vals...)
		}
	}
	if t.IsFloat() {
		texts := []string{"0.0", "1.0", "2.0", "3.0", "0.5", "2.5"}
		text := texts[g.r.Intn(len(texts))]
		l := litFloat(t, text, g.r.Bool())
		f := l.V.Float()
		for _, d := range []float64{-1, -0.5, 0, 0.5, 1} {
			if t == F32 {
				hint(f32Value(float32(f + d)))
			} else {
				hint(f64Value(f + d))
			}
		}
		return mkCmp([]string{"<", ">", "<=", ">="}[g.r.Intn(4)], mkVar(v.name, t), l)
	}
	nonNeg := t.Unsigned() || v.kind == vLoop || v.counter
	if nonNeg && g.r.Chance(1, 5) {
		m := g.r.Range(2, 4)
		c := g.r.Intn(m)
		for k := 0; k <= m; k++ {
			hint(uintValue(t, uint64(k)))
		}
		return mkCmp("==", mkArith("%", mkVar(v.name, t), litInt(t, uint64(m), g.r.Bool())), litInt(t, uint64(c), g.r.Bool()))
	}
	c := g.r.Intn(7)
	for _, d := range []int{-1, 0, 1} {
		x := c + d
		if x < 0 && t.Unsigned() {
			continue
		}
		hint(decodeResult(t, uint64(int64(x))))
	}
	return mkCmp(cmpOps[g.r.Intn(len(cmpOps))], mkVar(v.name, t), litInt(t, uint64(c), g.r.Bool()))
}

func (g *G) condExpr() *E {
	pSel := 35
	if g.ctl {
		pSel = 75
	}
	if g.r.Intn(100) < pSel {
		if c := g.selectorCond(); c != nil {
			return c
		}
	}
	if g.r.Chance(3, 4) {
		return g.cmp(g.maxExpr - 1)
	}
	return g.expr(U8, g.maxExpr-1, true)
}

// ifStmt: if / (else if)* / else? with 0..4 else-if arms. Any arm, including later
// else-ifs and the final else, may end in break / continue (inside loops) or an early
// return. In 3 of 4 chains one randomly chosen arm is kept from diverging so that the
// statements after the chain stay reachable through the chain itself; in the rest every
// arm may diverge (the analyzer accepts the unreachable tail).
func (g *G) ifStmt(o blockOpts) *S {
	nel := 0
	switch n := g.r.Intn(100); {
	case n < 28:
		nel = 0
	case n < 52:
		nel = 1
	case n < 74:
		nel = 2
	case n < 90:
		nel = 3
	default:
		nel = 4
	}
	hasElse := g.r.Chance(11, 20)
	arms := 1 + nel
	if hasElse {
		arms++
	}
	keep := -1
	if !g.r.Chance(1, 4) {
		keep = g.r.Intn(arms)
	}
	pDiv, pRet := 12, 8
	if g.loops > 0 {
		pDiv, pRet = 38, 7
	}
	arm := func(idx, lo, hi int) []*S {
		sub := blockOpts{n: g.r.Range(lo, hi), depth: o.depth - 1, mayRet: o.mayRet, noFinalD: idx == keep, pDiv: pDiv, pRet: pRet}
		b, _ := g.block(sub)
		return b
	}
	s := &S{K: SIf, X: g.condExpr()}
	s.Body = arm(0, 1, 3)
	for k := 0; k < nel; k++ {
		c := g.condExpr()
		s.Elifs = append(s.Elifs, Elif{X: c, Body: arm(1+k, 1, 2)})
	}
	if hasElse {
		s.HasElse = true
		s.Else = arm(arms-1, 1, 3)
	}
	return s
}

func usedVars(e *E, into map[string]bool) {
	if e == nil {
		return
	}
	if e.K == KVar {
		into[e.Name] = true
	}
	usedVars(e.A, into)
	usedVars(e.B, into)
}

// loop returns the statements making up one bounded loop (some forms need a counter
// declared in front).
func (g *G) loop(o blockOpts) []*S {
	body := blockOpts{n: g.r.Range(1, 3), depth: o.depth - 1, mayRet: o.mayRet, pDiv: 6, pRet: 5}
	if g.ctl {
		body.n = g.r.Range(2, 4)
	}
	// tail: statements after whatever the body ends with, so that a wrongly skipped or
	// wrongly executed remainder of an iteration shows in the accumulator
	tail := func(b []*S, diverged bool) []*S {
		if g.acc != "" && !diverged && g.r.Chance(7, 10) {
			b = append(b, g.bump())
		}
		return b
	}
	switch g.r.Intn(10) {
	case 0, 1, 2, 3, 4, 5: // range
		t := g.pickIntType()
		allBare := g.r.Chance(1, 4)
		if allBare {
			t = I64 // all-literal arguments: the literals' default type
		}
		bound := func(lo, hi int) *E {
			if !allBare && t.Unsigned() && g.r.Chance(1, 3) {
				if vs := g.varsOf(t, false); len(vs) > 0 {
					v := vs[g.r.Intn(len(vs))]
					return mkArith("%", mkVar(v.name, t), g.smallLit(t, 2, 7, false))
				}
			}
			return g.smallLit(t, lo, hi, allBare)
		}
		s := &S{K: SForRange, Name: g.fresh("k"), T: t}
		lo0 := 0
		if g.ctl {
			lo0 = 3 // control-flow functions want loops that iterate
		}
		switch g.r.Intn(5) {
		case 0, 1:
			s.Args = []*E{bound(lo0, 6)}
		case 2, 3:
			s.Args = []*E{bound(0, 4-lo0), bound(lo0+1, 8)}
		default:
			if t.Signed() && g.r.Bool() {
				// counting down
				s.Args = []*E{bound(3, 8), bound(0, 3), mkNeg(g.smallLit(t, 1, 3, allBare))}
				if allBare {
					s.Args[2] = mkNeg(g.smallLit(t, 1, 3, true))
				}
			} else {
				s.Args = []*E{bound(0, 4), bound(0, 9), g.smallLit(t, 1, 3, allBare)}
			}
		}
		used := map[string]bool{}
		for _, a := range s.Args {
			usedVars(a, used)
		}
		var locked []*gvar
		for _, v := range g.vars {
			if used[v.name] {
				v.ro++
				locked = append(locked, v)
			}
		}
		lv := &gvar{name: s.Name, t: t, kind: vLoop, ro: 1}
		g.vars = append(g.vars, lv)
		g.loops++
		mark := len(g.vars)
		b, div := g.stmts(body)
		s.Body = tail(b, div)
		g.vars = g.vars[:mark]
		g.loops--
		g.vars = g.vars[:len(g.vars)-1]
		for _, v := range locked {
			v.ro--
		}
		return []*S{s}
	default: // counter-driven conditional / infinite loop
		t := g.pickIntType()
		cn := g.fresh("c")
		clo := 0
		if g.ctl {
			clo = 2
		}
		decl := &S{K: SDecl, Name: cn, T: t, Explicit: true, X: g.smallLit(t, clo, 6, true)}
		cv := &gvar{name: cn, t: t, kind: vLocal, ro: 1, counter: true}
		g.vars = append(g.vars, cv)
		one := func() *E { return g.smallLit(t, 1, 1, g.r.Bool()) }
		var dec *S
		if g.r.Bool() {
			dec = &S{K: SAssign, Name: cn, T: t, X: mkArith("-", mkVar(cn, t), one())}
		} else {
			dec = &S{K: SCompound, Name: cn, T: t, Op: "-", X: one()}
		}
		g.loops++
		mark := len(g.vars)
		b, div := g.stmts(body)
		b = tail(b, div)
		g.vars = g.vars[:mark]
		g.loops--
		cv.ro = 0 // assignable again after the loop; stays declared in the enclosing block
		cv.counter = false
		if g.r.Chance(2, 3) {
			// for c > 0 { c = c - 1; ... }
			s := &S{K: SForCond, X: mkCmp(">", mkVar(cn, t), g.smallLit(t, 0, 0, g.r.Bool()))}
			s.Body = append([]*S{dec}, b...)
			return []*S{decl, s}
		}
		// for { if c <= 0 { break }  c = c - 1; ... }
		s := &S{K: SForInf}
		guard := &S{K: SIf, X: mkCmp("<=", mkVar(cn, t), g.smallLit(t, 0, 0, g.r.Bool())), Body: []*S{{K: SBreak}}}
		s.Body = append([]*S{guard, dec}, b...)
		return []*S{decl, s}
	}
}

// ---------------------------------------------------------------------------------------
// Functions
// ---------------------------------------------------------------------------------------

func (g *G) params(f *Func, lo, hi int) {
	n := g.r.Range(lo, hi)
	for i := 0; i < n; i++ {
		p := Param{Name: fmt.Sprintf("p%d", i), T: g.pickType()}
		f.Params = append(f.Params, p)
		g.vars = append(g.vars, &gvar{name: p.Name, t: p.T, kind: vParam})
	}
}

// exprFunc: `return <expression>` over 1..3 parameters.
func genExprFunc(r *prng.R, name string) *Func {
	g := &G{r: r, maxExpr: r.Range(2, 5)}
	f := &Func{Name: name, Ret: g.pickType()}
	g.ret = f.Ret
	g.params(f, 1, 3)
	f.Body = []*S{{K: SReturn, X: g.expr(f.Ret, g.maxExpr, false)}}
	return f
}

// stmtFunc: locals, assignment, compound assignment, if / else if / else with early
// return, bounded loops, optional stateful variables.
func genStmtFunc(r *prng.R, name string, stateful bool) *Func {
	g := &G{r: r, maxExpr: r.Range(2, 3), hints: map[string][]Value{}}
	f := &Func{Name: name, Ret: g.pickType(), Stateful: stateful}
	g.ret = f.Ret
	g.params(f, 1, 3)
	if stateful {
		for k := g.r.Range(1, 2); k > 0; k-- {
			t := g.pickType()
			n := g.fresh("s")
			var init *E
			if vs := g.varsOf(t, false); len(vs) > 0 && g.r.Chance(1, 3) {
				init = mkVar(vs[0].name, t)
			} else {
				init = g.lit(t, g.r.Bool())
				if (t.Signed() || t.IsFloat()) && g.r.Chance(1, 4) {
					init = mkNeg(init)
				}
			}
			f.Body = append(f.Body, &S{K: SState, Name: n, T: t, X: init})
			g.vars = append(g.vars, &gvar{name: n, t: t, kind: vState})
		}
	}
	body, _ := g.stmts(blockOpts{n: g.r.Range(2, 6), depth: 2, mayRet: true, noFinalD: true})
	f.Hints = g.hints
	f.Body = append(f.Body, body...)
	f.Body = append(f.Body, g.finalReturn(f))
	return f
}

// genStateIdiom: the small stateful shapes users actually write, over every numeric type,
// with a NON-ZERO initialiser and a value that becomes exactly zero at run time: a
// countdown that stops at zero, "return the previous input", a 0/1 toggle. Only
// assignments and +-1 on small values are used, so no spec-silent arithmetic is involved.
func genStateIdiom(r *prng.R, name string) *Func {
	t := allTyps[r.Intn(len(allTyps))]
	num := func(x int) *E {
		if t.IsFloat() {
			return litFloat(t, fmt.Sprintf("%d.0", x), true)
		}
		return litInt(t, uint64(x), true)
	}
	f := &Func{Name: name, Ret: t, Stateful: true, Hints: map[string][]Value{}}
	f.Params = []Param{{Name: "p0", T: t}}
	val := func(x int) Value {
		switch {
		case t == F32:
			return f32Value(float32(x))
		case t == F64:
			return f64Value(float64(x))
		}
		return uintValue(t, uint64(x))
	}
	k := r.Range(1, 4)
	sv := mkVar("s0", t)
	switch r.Intn(3) {
	case 0: // countdown
		f.Body = []*S{
			{K: SState, Name: "s0", T: t, X: num(k)},
			{K: SIf, X: mkCmp(">", sv, num(0)), Body: []*S{{K: SAssign, Name: "s0", T: t, X: mkArith("-", sv, num(1))}}},
			{K: SReturn, X: sv},
		}
	case 1: // previous input
		f.Body = []*S{
			{K: SState, Name: "s0", T: t, X: num(k + 4)},
			{K: SDecl, Name: "r0", T: t, X: sv},
			{K: SAssign, Name: "s0", T: t, X: mkVar("p0", t)},
			{K: SReturn, X: mkVar("r0", t)},
		}
		f.Hints["p0"] = []Value{val(0), val(0), val(k + 4), val(1)}
	default: // toggle
		f.Body = []*S{
			{K: SState, Name: "s0", T: t, X: num(1)},
			{K: SAssign, Name: "s0", T: t, X: mkArith("-", num(1), sv)},
			{K: SReturn, X: sv},
		}
	}
	return f
}

var ctlParamTypes = []Typ{I64, I64, I32, I32, U32, U32, U64, U64, U8, I16, I8, U16, F64, F32}

// genCtlFunc: control flow first. An i64 accumulator records the path; the body is a
// sequence of loops (every form), if-chains (0..4 else-if arms, nested, with break /
// continue / return / assignments in any arm) and accumulator updates, nested up to three
// levels; the function returns the accumulator.
func genCtlFunc(r *prng.R, name string) *Func {
	g := &G{r: r, maxExpr: 2, ctl: true, hints: map[string][]Value{}}
	f := &Func{Name: name, Ret: I64}
	g.ret = I64
	n := g.r.Range(1, 3)
	for i := 0; i < n; i++ {
		p := Param{Name: fmt.Sprintf("p%d", i), T: ctlParamTypes[g.r.Intn(len(ctlParamTypes))]}
		f.Params = append(f.Params, p)
		g.vars = append(g.vars, &gvar{name: p.Name, t: p.T, kind: vParam})
	}
	g.acc = "acc"
	f.Body = append(f.Body, &S{K: SDecl, Name: "acc", T: I64, Explicit: true, X: litInt(I64, 0, true)})
	g.vars = append(g.vars, &gvar{name: "acc", t: I64, kind: vLocal})
	o := blockOpts{depth: 3, mayRet: true, noFinalD: true}
	items := g.r.Range(2, 4)
	loops := 0
	for i := 0; i < items; i++ {
		switch k := g.r.Intn(100); {
		case k < 60 || (i == items-1 && loops == 0):
			f.Body = append(f.Body, g.loop(o)...)
			loops++
		case k < 85:
			f.Body = append(f.Body, g.ifStmt(o))
		default:
			f.Body = append(f.Body, g.bump())
		}
	}
	if g.r.Chance(4, 5) {
		f.Body = append(f.Body, &S{K: SReturn, X: mkVar("acc", I64)})
	} else {
		f.Body = append(f.Body, &S{K: SReturn, X: mkArith("+", mkVar("acc", I64), g.expr(I64, 2, true))})
	}
	f.Hints = g.hints
	return f
}

func (g *G) finalReturn(f *Func) *S {
	return &S{K: SReturn, X: g.expr(f.Ret, g.maxExpr, false)}
}

// ---------------------------------------------------------------------------------------
// Quirk programs: single functions built around one construct that spec.md shows or
// implies and the analyzer may accept. They are kept out of the bulk programs so that a
// failure of the construct cannot hide the rest of a program.
// ---------------------------------------------------------------------------------------

var quirkNames = []string{"float-mod", "literal-logic", "non-u8-cond", "min-literal", "u64-big-literal", "literal-range", "not-literal", "mixed-pow", "unit-suffix"}

func genQuirkFunc(r *prng.R, name string) (*Func, string) {
	q := quirkNames[r.Intn(len(quirkNames))]
	g := &G{r: r, maxExpr: 2}
	f := &Func{Name: name}
	switch q {
	case "float-mod":
		t := []Typ{F32, F64}[r.Intn(2)]
		f.Ret = t
		f.Params = []Param{{"p0", t}, {"p1", t}}
		f.Body = []*S{{K: SReturn, X: mkArith("%", mkVar("p0", t), mkVar("p1", t))}}
	case "mixed-pow":
		// "No mixed-type arithmetic": base and exponent of different types must be rejected,
		// or, if accepted, compile to a valid module
		t := allTyps[r.Intn(len(allTyps))]
		u := allTyps[r.Intn(len(allTyps))]
		for u == t {
			u = allTyps[r.Intn(len(allTyps))]
		}
		f.Ret = t
		f.NoRef = true
		f.Params = []Param{{"p0", t}, {"p1", u}}
		f.Body = []*S{{K: SReturn, X: &E{K: KArith, Op: "^", T: t, A: mkVar("p0", t), B: mkVar("p1", u)}}}
	case "unit-suffix":
		// a literal glued to an identifier is a unit literal; unknown units must be
		// diagnosed by the analyzer, not by the compiler
		f.Ret = I64
		f.NoRef = true
		f.Params = []Param{{"p0", I64}}
		suffix := []string{"xyz", "e5", "q", "kg2", "ms", "s", "hz"}[r.Intn(7)]
		f.Body = []*S{{K: SReturn, X: mkArith("+", mkVar("p0", I64), &E{K: KLit, T: I64, Text: strconv.Itoa(r.Range(1, 9)) + suffix, V: intValue(I64, 0), Bare: true})}}
	case "literal-logic":
		// spec.md "Boolean Semantics": result := 2 and 3 // 1
		f.Ret = U8
		f.Params = []Param{{"p0", U8}}
		op := []string{"and", "or"}[r.Intn(2)]
		f.Body = []*S{{K: SReturn, X: mkLogic(op, litInt(I64, uint64(r.Range(0, 5)), true), litInt(I64, uint64(r.Range(0, 5)), true))}}
	case "not-literal":
		// spec.md "Boolean Semantics": negated := not 5 // 0
		f.Ret = U8
		f.Params = []Param{{"p0", U8}}
		f.Body = []*S{{K: SReturn, X: mkNot(litInt(I64, uint64(r.Range(0, 5)), true))}}
	case "non-u8-cond":
		t := allTyps[r.Intn(len(allTyps))]
		f.Ret = I64
		f.NoRef = true
		f.Params = []Param{{"p0", t}}
		f.Body = []*S{
			{K: SIf, X: mkVar("p0", t), Body: []*S{{K: SReturn, X: litInt(I64, 1, true)}}},
			{K: SReturn, X: litInt(I64, 0, true)},
		}
	case "min-literal":
		// -128 for i8 etc.: the unary minus of the out-of-range magnitude
		t := []Typ{I8, I16, I32, I64}[r.Intn(4)]
		f.Ret = t
		f.Params = []Param{{"p0", t}}
		var m *E
		if t == I64 {
			m = &E{K: KLit, T: t, Text: "9223372036854775808", V: intValue(t, math.MinInt64), Bare: true}
			f.Body = []*S{{K: SDecl, Name: "v1", T: t, Explicit: true, X: &E{K: KNeg, Op: "-", T: t, A: m}}, {K: SReturn, X: mkVar("v1", t)}}
			// the literal alone is not representable; the reference only ever sees -lit
			m.V = intValue(t, math.MinInt64)
		} else {
			mag := uint64(1) << (uint(t.Bits()) - 1)
			m = &E{K: KLit, T: t, Text: strconv.FormatUint(mag, 10), V: intValue(t, -int64(mag)), Bare: true}
			f.Body = []*S{{K: SDecl, Name: "v1", T: t, Explicit: true, X: &E{K: KNeg, Op: "-", T: t, A: m}}, {K: SReturn, X: mkVar("v1", t)}}
		}
	case "u64-big-literal":
		f.Ret = U64
		f.Params = []Param{{"p0", U64}}
		f.Body = []*S{{K: SReturn, X: &E{K: KLit, T: U64, Text: "18446744073709551615", V: uintValue(U64, math.MaxUint64), Bare: true}}}
	case "literal-range":
		// a bare literal next to a narrow variable whose type cannot hold it
		t := []Typ{I8, U8, I16, U16}[r.Intn(4)]
		f.Ret = t
		f.NoRef = true
		f.Params = []Param{{"p0", t}}
		big := maxOf(t) + 1 + uint64(r.Intn(50))
		f.Body = []*S{{K: SReturn, X: mkArith("+", mkVar("p0", t), &E{K: KLit, T: t, Text: strconv.FormatUint(big, 10), V: wrapU(t, big), Bare: true})}}
	}
	_ = g
	return f, q
}

func wrapU(t Typ, x uint64) Value {
	return decodeResult(t, x)
}
