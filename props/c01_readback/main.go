// C01 — Cesium reads return exactly the committed samples, in time order.
//
// Monitor: generated legal write scripts are executed against the real engine; a
// timestamp->value reference model is fed at the client boundary (samples become
// "committed" only when the engine acknowledged the commit); every read (DB.Read,
// forward and backward iterator walks with arbitrary spans) at quiescent points, and again
// after close+reopen, must equal the model byte for byte, in ascending time order.
package main

import (
	"fmt"
	"strings"
	"sync"

	xfs "github.com/synnaxlabs/x/io/fs"
	"verif/lib/cskit"
	"verif/lib/harness"
	"verif/lib/recfs"
)

func main() {
	harness.Main("C01", "exploration",
		harness.Layer{Name: "mem", Run: func(h *harness.H) { run(h, "mem", h.N(400, 20000), false) }},
		harness.Layer{Name: "osfs", Run: func(h *harness.H) { run(h, "osfs", h.N(30, 1500), true) }},
	)
}

type witness struct {
	Script   *cskit.Script  `json:"script"`
	Mismatch cskit.Mismatch `json:"mismatch"`
}

func run(h *harness.H, layer string, n int, osfs bool) {
	h.AddRule(layer + ": scripts from cskit.Gen (1-2 index groups x 1-4 data channels over 12 fixed + 3 variable types, 1-6 writer sessions in shuffled disjoint windows, combined and data-only sessions, chunks 1..64, irregular spacing 1ns..1s, auto-commit on/off, persist interval always/1ns/1s, sync on/off, file caps 1B..1GiB, interleaved writers of different groups, reopen); a script is non-trivial if >=1 compared read returned >=1 sample; distinct by normalised script shape")
	h.Assume("model fed at the client boundary: auto-commit writes count as committed once acknowledged (sync write ack, Commit ack or Close ack); explicit-commit writes once Commit returned nil; Close discards the uncommitted tail")
	h.Assume("scripts are legal by construction (Start = first sample's timestamp, disjoint sessions, data-only sessions aligned to a stored contiguous index run); an engine error on a legal op stops the script and is counted, not judged")
	var mu sync.Mutex
	unexpected := map[string]int{}
	work := make(chan int, 64)
	var wg sync.WaitGroup
	for w := 0; w < 12; w++ {
		wg.Add(1)
		go func() {
			defer wg.Done()
			for c := range work {
				one(h, layer, c, osfs, &mu, unexpected)
			}
		}()
	}
	for c := 0; c < n; c++ {
		if h.Skip(layer, c) {
			continue
		}
		work <- c
	}
	close(work)
	wg.Wait()
	if len(unexpected) > 0 {
		h.SetExtra("unexpected_errors_"+layer, unexpected)
	}
}

func one(h *harness.H, layer string, c int, osfs bool, mu *sync.Mutex, unexpected map[string]int) {
	r := h.Rand(layer, c)
	opts := cskit.DefaultGen()
	s := cskit.Gen(r, opts)
	var fs xfs.FS
	var cleanup func()
	if osfs {
		dir, err := mkTemp()
		if err != nil {
			h.Inconclusive("tempdir")
			return
		}
		sub, _ := xfs.Default.Sub(dir)
		fs = sub
		cleanup = func() { rmTemp(dir) }
	} else {
		rfs, _ := recfs.New(xfs.NewMem())
		fs = rfs
		cleanup = func() {}
	}
	defer cleanup()
	e := cskit.NewExec(fs, s)
	e.AutoReads = true // automatic-chunking walks (repaired in repo by the C10 fix commits)
	h.Eval()
	if err := e.Setup(); err != nil {
		h.Inconclusive("setup-error")
		return
	}
	e.Run()
	// final: reopen and read everything again, including a full-range read per channel
	if e.UnexpectedErr == "" || true {
		for id := range map[int]bool{} {
			_ = id
		}
	}
	e.CloseWriters()
	e.DoReads(uint64(c)*7919+1, 10)
	e.FullChecks()
	if err := e.Reopen(); err != nil {
		h.Violation(layer, c, "c01:reopen-failed", "close+reopen of the database failed after a legal script: "+err.Error(), witness{Script: s})
	} else {
		e.DoReads(uint64(c)*7919+1, 10)
		e.FullChecks()
	}
	e.CloseAll()
	h.Count("reads_compared", e.ReadsCompared)
	h.Count("samples_compared", e.SamplesCompared)
	h.Count("reopens", e.Reopens)
	if e.UnexpectedErr != "" {
		h.Count("scripts_stopped_by_engine_error", 1)
		mu.Lock()
		if len(unexpected) < 40 {
			unexpected[trim(e.UnexpectedErr)]++
		}
		mu.Unlock()
	}
	for _, m := range e.Mismatches {
		kind := "fixed"
		if cskit.IsVar(m.DT) {
			kind = "var"
		}
		phase := "live"
		if m.Reopened {
			phase = "reopened"
		}
		sig := fmt.Sprintf("c01:%s:%s:%s:%s", m.Class, m.Mode, kind, phase)
		if m.Class == "error" {
			sig = fmt.Sprintf("c01:error:%s:%s", m.Mode, errKind(e, m))
		}
		h.Violation(layer, c, sig, fmt.Sprintf("read of channel %d (%s) over [%d,%d) via %s returned %d samples, model has %d: %s", m.Key, m.DT, m.A, m.B, m.Mode, m.Got, m.Want, m.Detail), witness{Script: s, Mismatch: m})
	}
	if e.SamplesCompared > 0 {
		h.Distinct(s.Shape())
	}
	h.Sample(map[string]any{"case": c, "layer": layer, "ops": len(s.Ops), "file_size": s.FileSize, "groups": len(s.Groups), "reads_compared": e.ReadsCompared, "samples_compared": e.SamplesCompared, "first_ops": firstOps(s, 8)})
}

func firstOps(s *cskit.Script, n int) []cskit.Op {
	if len(s.Ops) < n {
		n = len(s.Ops)
	}
	out := make([]cskit.Op, n)
	copy(out, s.Ops[:n])
	for i := range out {
		if len(out[i].TS) > 4 {
			out[i].TS = out[i].TS[:4]
		}
	}
	return out
}

func trim(s string) string {
	if len(s) > 160 {
		return s[:160]
	}
	return s
}

// errKind normalises an iterator/read error into a structural class. The one class that
// is specific enough to be keyed as a known finding is checked against the model here:
// bounds that start at time zero and a requested channel that holds no sample at all.
func errKind(e *cskit.Exec, m cskit.Mismatch) string {
	if strings.Contains(m.Detail, "1970-01-01T00:00:00Z - 00:00:00 (0s) is not continuous in the index") && m.A == 0 {
		if len(m.EmptyKeys) > 0 {
			return "zero-range-discontinuous-on-empty-channel-with-bounds-from-time-zero"
		}
	}
	out := make([]rune, 0, 48)
	for _, r := range m.Detail {
		if len(out) >= 48 {
			break
		}
		switch {
		case r >= 'a' && r <= 'z', r >= 'A' && r <= 'Z':
			out = append(out, r)
		case r == ' ' && len(out) > 0 && out[len(out)-1] != '-':
			out = append(out, '-')
		}
	}
	return string(out)
}
