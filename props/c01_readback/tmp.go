package main

import "os"

// Temp directories for the OS-filesystem layer live under $VERIF_ROOT/.build/tmp, never /tmp.
func mkTemp() (string, error) {
	base := os.Getenv("VERIF_ROOT")
	if base == "" {
		base = "/verif"
	}
	base += "/.build/tmp"
	if err := os.MkdirAll(base, 0o755); err != nil {
		return "", err
	}
	return os.MkdirTemp(base, "c01-")
}

func rmTemp(d string) { _ = os.RemoveAll(d) }
