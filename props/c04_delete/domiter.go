package main

import (
	"bytes"
	"context"
	"fmt"
	"sort"

	"github.com/synnaxlabs/cesium/verifx"
	xfs "github.com/synnaxlabs/x/io/fs"
	"github.com/synnaxlabs/x/telem"
	"verif/lib/harness"
	"verif/lib/prng"
)

// domiter: "garbage collection is invisible to readers" for a reader that is ALREADY
// positioned. On the storage layer under every channel (domain.DB, reached through the
// verif-tagged re-exports) a script writes domains with unique bytes into small files,
// positions 1-3 iterators (SeekFirst+Next, SeekLast+Prev, SeekGE, SeekLE), deletes runs of
// whole domains that leave the positioned domains alone,
// runs a synchronous GC pass (compaction moves the surviving bytes), and only then asks
// each positioned iterator for its reader. Oracle: time range and size unchanged, the bytes
// read are the bytes written; afterwards a fresh iterator enumerates exactly the model.

type dmDom struct {
	S, E int64
	Data []byte
}

type dmWitness struct {
	FileSize int64    `json:"file_size"`
	Steps    []string `json:"steps"`
}

func domiter(h *harness.H) {
	h.AddRule("domiter: per case one domain.DB on a MemFS (file cap 24 B..2 KiB, GC threshold 1e-9), 4-14 domains of 3-60 unique bytes written in time order or out of order, 1-3 iterators positioned by SeekFirst+Next / SeekLast+Prev / SeekGE / SeekLE, 1-4 deletes of runs of whole domains that do not touch a positioned domain, a synchronous GC pass, optionally a second delete+GC round; then every positioned iterator's TimeRange/Size/OpenReader bytes are compared with what was written, and a fresh iterator's enumeration with the model; non-trivial = GC shrank the bytes on disk and at least one positioned reader was compared; distinct by (file cap, positions, delete shapes)")
	n := h.N(1500, 60000)
	for c := 0; c < n; c++ {
		if h.Skip("domiter", c) {
			continue
		}
		domiterOne(h, c)
	}
}

func dmPayload(id, n int) []byte {
	b := make([]byte, n)
	for i := range b {
		b[i] = byte(id*31 + i*7 + 1)
	}
	// first two bytes identify the domain
	b[0] = byte(id)
	if n > 1 {
		b[1] = byte(id >> 8)
	}
	return b
}

func diskBytes(fs xfs.FS) int64 {
	infos, err := fs.List("")
	if err != nil {
		return -1
	}
	var t int64
	for _, i := range infos {
		if !i.IsDir() && i.Name() != "index.domain" && i.Name() != "counter.domain" {
			t += i.Size()
		}
	}
	return t
}

func domiterOne(h *harness.H, c int) {
	const layer = "domiter"
	ctx := context.Background()
	r := h.Rand(layer, c)
	w := &dmWitness{FileSize: prng.Pick(r, []int64{24, 40, 64, 100, 256, 2048})}
	note := func(f string, a ...any) { w.Steps = append(w.Steps, fmt.Sprintf(f, a...)) }
	h.Eval()
	fs := xfs.NewMem()
	db, err := verifx.OpenDomain(verifx.DomainConfig{FS: fs, FileSize: telem.Size(w.FileSize), GCThreshold: 1e-9})
	if err != nil {
		h.Inconclusive("domiter-open-error")
		return
	}
	defer func() { _ = db.Close() }()
	nd := r.Range(4, 14)
	order := make([]int, nd)
	for i := range order {
		order[i] = i
	}
	if r.Chance(1, 3) {
		prng.Shuffle(r, order)
	}
	var model []dmDom
	for _, i := range order {
		d := dmDom{S: int64(1000 + i*100), E: int64(1000 + i*100 + r.Range(10, 100)), Data: dmPayload(i+1, r.Range(3, 60))}
		if err := verifx.DomainWrite(ctx, db, telem.TimeRange{Start: telem.TimeStamp(d.S), End: telem.TimeStamp(d.E)}, d.Data); err != nil {
			h.Violation(layer, c, "c04:domiter:write-refused", "writing a free range failed: "+err.Error(), w)
			return
		}
		note("write [%d,%d) %dB", d.S, d.E, len(d.Data))
		model = append(model, d)
	}
	sort.Slice(model, func(i, j int) bool { return model[i].S < model[j].S })

	type held struct {
		it   *verifx.DomainIterator
		want dmDom
		how  string
	}
	var its []held
	defer func() {
		for _, x := range its {
			_ = x.it.Close()
		}
	}()
	shape := fmt.Sprintf("fs%d n%d|", w.FileSize, nd)
	for k, ni := 0, r.Range(1, 3); k < ni; k++ {
		it := db.OpenIterator(verifx.DomainIterRange(telem.TimeRangeMax))
		j := r.Intn(len(model))
		how := ""
		ok := false
		switch r.Intn(4) {
		case 0:
			how = fmt.Sprintf("SeekFirst+%dxNext", j)
			ok = it.SeekFirst(ctx)
			for s := 0; s < j && ok; s++ {
				ok = it.Next()
			}
		case 1:
			back := len(model) - 1 - j
			how = fmt.Sprintf("SeekLast+%dxPrev", back)
			ok = it.SeekLast(ctx)
			for s := 0; s < back && ok; s++ {
				ok = it.Prev()
			}
		case 2:
			how = "SeekGE"
			ok = it.SeekGE(ctx, telem.TimeStamp(model[j].S))
		default:
			how = "SeekLE"
			ok = it.SeekLE(ctx, telem.TimeStamp(model[j].E-1))
		}
		if !ok || int64(it.TimeRange().Start) != model[j].S {
			_ = it.Close()
			h.Violation(layer, c, "c04:domiter:positioning-wrong", fmt.Sprintf("%s should land on domain [%d,%d); valid=%v range=%v", how, model[j].S, model[j].E, ok, it.TimeRange()), w)
			return
		}
		note("iterator %d positioned on [%d,%d) by %s", k, model[j].S, model[j].E, how)
		shape += fmt.Sprintf("p%d/%s;", j, how[:5])
		its = append(its, held{it, model[j], how})
	}
	pinned := func(a, b int64) bool {
		for _, x := range its {
			if a < x.want.E && x.want.S < b {
				return true
			}
		}
		return false
	}
	before := diskBytes(fs)
	deleted := 0
	rounds := 1
	if r.Chance(1, 4) {
		rounds = 2
	}
	for round := 0; round < rounds; round++ {
		for k, nk := 0, r.Range(1, 4); k < nk; k++ {
			// whole domains only: from the start of one to the end of another (cuts inside a
			// domain are the business of the other layers, with their known findings)
			a, b := model[r.Intn(len(model))].S, model[r.Intn(len(model))].E
			if a > b {
				a, b = b, a
			}
			if a == b || pinned(a, b) {
				continue
			}
			cur := append([]dmDom(nil), model...)
			res := func(_ context.Context, domainStart, ts telem.TimeStamp) (telem.Size, telem.TimeStamp, error) {
				for _, d := range cur {
					if d.S == int64(domainStart) {
						return telem.Size(int64(len(d.Data)) * (int64(ts) - d.S) / (d.E - d.S)), ts, nil
					}
				}
				return 0, ts, fmt.Errorf("resolver: unknown domain start %d", domainStart)
			}
			if err := db.Delete(ctx, telem.TimeRange{Start: telem.TimeStamp(a), End: telem.TimeStamp(b)}, res, res); err != nil {
				h.Count("domiter_deletes_refused", 1)
				h.Seen("domiter_delete_errors", trim(err.Error()))
				note("delete [%d,%d) -> %v", a, b, err)
				h.Inconclusive("domiter-delete-error")
				return
			}
			var next []dmDom
			kind := "whole"
			for _, d := range cur {
				if d.E <= a || b <= d.S {
					next = append(next, d)
					continue
				}
				deleted++
				if d.S < a {
					off := int64(len(d.Data)) * (a - d.S) / (d.E - d.S)
					next = append(next, dmDom{d.S, a, d.Data[:off]})
					kind = "cut"
				}
				if b < d.E {
					off := int64(len(d.Data)) * (b - d.S) / (d.E - d.S)
					next = append(next, dmDom{b, d.E, d.Data[off:]})
					kind = "cut"
				}
			}
			model = next
			note("delete [%d,%d) (%s)", a, b, kind)
			shape += kind[:1]
		}
		if len(model) == 0 {
			break
		}
		if err := db.GarbageCollect(ctx); err != nil {
			h.Violation(layer, c, "c04:domiter:gc-error", "GarbageCollect failed: "+err.Error(), w)
			return
		}
		note("gc")
		h.Count("domiter_gc_passes", 1)
	}
	after := diskBytes(fs)
	compacted := before >= 0 && after >= 0 && after < before
	if compacted {
		h.Count("domiter_cases_where_gc_shrank_the_files", 1)
	}
	// the positioned readers
	for k, x := range its {
		tr := x.it.TimeRange()
		if int64(tr.Start) != x.want.S || int64(tr.End) != x.want.E {
			h.Violation(layer, c, "c04:domiter:positioned-range-changed", fmt.Sprintf("iterator %d was on [%d,%d); after deletes elsewhere + GC it reports %v", k, x.want.S, x.want.E, tr), w)
			continue
		}
		rd, err := x.it.OpenReader(ctx)
		if err != nil {
			h.Violation(layer, c, "c04:domiter:positioned-open-reader-error", fmt.Sprintf("iterator %d on [%d,%d): OpenReader after GC: %v", k, x.want.S, x.want.E, err), w)
			continue
		}
		buf := make([]byte, len(x.want.Data))
		nr, rerr := rd.ReadAt(buf, 0)
		_ = rd.Close()
		h.Count("domiter_positioned_readers_compared", 1)
		if nr != len(buf) || !bytes.Equal(buf, x.want.Data) {
			h.Violation(layer, c, "c04:domiter:positioned-reader-reads-other-bytes",
				fmt.Sprintf("iterator %d positioned (%s) on [%d,%d) before deletes elsewhere and a GC pass: its reader returned %d bytes (err %v) starting % x, written were %d bytes starting % x", k, x.how, x.want.S, x.want.E, nr, rerr, head8(buf[:nr]), len(x.want.Data), head8(x.want.Data)), w)
		}
	}
	// a fresh iterator sees exactly the model
	it := db.OpenIterator(verifx.DomainIterRange(telem.TimeRangeMax))
	i, broke := 0, false
	for ok := it.SeekFirst(ctx); ok; ok = it.Next() {
		tr := it.TimeRange()
		if i >= len(model) || int64(tr.Start) != model[i].S || int64(tr.End) != model[i].E {
			h.Violation(layer, c, "c04:domiter:fresh-enumeration-differs", fmt.Sprintf("domain %d of a fresh iterator is %v; model has %d domains", i, tr, len(model)), w)
			broke = true
			break
		}
		rd, err := it.OpenReader(ctx)
		if err != nil {
			h.Violation(layer, c, "c04:domiter:fresh-open-reader-error", err.Error(), w)
			broke = true
			break
		}
		buf := make([]byte, len(model[i].Data))
		nr, _ := rd.ReadAt(buf, 0)
		_ = rd.Close()
		if nr != len(buf) || !bytes.Equal(buf, model[i].Data) || int(it.Size()) != len(model[i].Data) {
			h.Violation(layer, c, "c04:domiter:fresh-reader-reads-other-bytes", fmt.Sprintf("domain [%d,%d): size %d, read %d bytes % x; model %d bytes % x", model[i].S, model[i].E, it.Size(), nr, head8(buf[:nr]), len(model[i].Data), head8(model[i].Data)), w)
			broke = true
			break
		}
		h.Count("domiter_fresh_domains_compared", 1)
		i++
	}
	_ = it.Close()
	if i < len(model) && !broke {
		h.Violation(layer, c, "c04:domiter:fresh-enumeration-short", fmt.Sprintf("a fresh iterator ended after %d domains; the model has %d", i, len(model)), w)
	}
	if compacted && len(its) > 0 && deleted > 0 {
		h.Distinct(shape)
	}
	h.Sample(map[string]any{"case": c, "file_size": w.FileSize, "domains": nd, "positioned": len(its), "deleted_or_cut": deleted, "disk_before": before, "disk_after": after, "steps": w.Steps})
}

func head8(b []byte) []byte {
	if len(b) > 8 {
		return b[:8]
	}
	return b
}
