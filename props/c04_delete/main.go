// C04 — Deletes remove exactly the requested range; garbage collection is invisible.
//
// Monitor: the C01 scripts extended with DeleteTimeRange over arbitrary half-open ranges
// (on samples, +-1ns, between samples, on domain edges, spanning 0..many domains, nested
// and repeated), synchronous GC passes at arbitrary positions and thresholds, reopen, and
// new writes into freed gaps. Oracle: reads equal "model minus deleted keys" for the named
// channels only; an index delete is refused iff a dependant (not itself being deleted)
// has data in range; a full read of every channel is identical before and after every GC
// pass and DiskSize does not grow.
package main

import (
	"os"
	"strings"
	"sync"

	xfs "github.com/synnaxlabs/x/io/fs"
	"verif/lib/cskit"
	"verif/lib/harness"
	"verif/lib/recfs"
)

func main() {
	harness.Main("C04", "exploration",
		harness.Layer{Name: "mem", Run: func(h *harness.H) { run(h, "mem", h.N(400, 20000)) }},
		harness.Layer{Name: "rewrite", Run: func(h *harness.H) { run(h, "rewrite", h.N(300, 15000)) }},
		harness.Layer{Name: "domiter", Run: domiter},
	)
}

type witness struct {
	Script   *cskit.Script   `json:"script"`
	Mismatch *cskit.Mismatch `json:"mismatch,omitempty"`
	Note     string          `json:"note,omitempty"`
}

func run(h *harness.H, layer string, n int) {
	if layer == "rewrite" {
		h.AddRule("rewrite: the same generator biased towards delete -> write the same stretch again -> delete again: one group, 1-2 data channels (string/json/bytes/int64/uint8), file sizes 64 B..1 GiB, half of the deletes remove exactly what one session committed, every freed stretch is refilled with the very same timestamps (new values of other lengths), usually extended by 1-4 earlier stamps that a later delete cuts off again, earlier delete boundaries are re-used, deletes after every session; same oracle")
	}
	h.AddRule(layer + ": cskit.Gen scripts with Deletes+GC+GapRewrite (delete ranges with ends on samples, +-1ns, between samples, +-1000ns, far outside; data-only, index-only and index+all-data requests; 1-3 deletes between sessions; gc passes with thresholds 1e-9..1; rewrite sessions into freed gaps and data-only rewrites into freed positions; reopen); non-trivial = at least one delete removed >=1 model sample and >=1 read compared afterwards; distinct by script shape")
	h.Assume("delete requests are restricted to the shapes whose outcome the statement determines: data channels only, an index channel alone, or an index channel together with all of its data channels")
	h.Assume("GC invoked through the verif-tagged synchronous pass-through to the existing private garbageCollect")
	var wg sync.WaitGroup
	work := make(chan int, 64)
	for w := 0; w < 12; w++ {
		wg.Add(1)
		go func() {
			defer wg.Done()
			for c := range work {
				one(h, layer, c)
			}
		}()
	}
	for c := 0; c < n; c++ {
		if !h.Skip(layer, c) {
			work <- c
		}
	}
	close(work)
	wg.Wait()
}

func one(h *harness.H, layer string, c int) {
	r := h.Rand(layer, c)
	o := cskit.DefaultGen()
	o.Deletes, o.GC, o.GapRewrite = true, true, true
	o.MaxSessions = 7
	if layer == "rewrite" {
		// delete -> refill the same stretch -> delete again, mostly on one group with
		// variable-length channels and files large enough to keep a session in one domain
		o.Rewrite = true
		o.MaxGroups, o.MaxData, o.MaxSessions = 1, 2, 6
		o.Types = []string{"string", "json", "bytes", "int64", "uint8", "string"}
		o.FileSizes = []int64{64, 1000, 1 << 30, 1 << 30}
	}
	// exploration knobs (never set by the registered commands)
	for _, k := range strings.Split(os.Getenv("VERIF_C04_OPTS"), ",") {
		switch k {
		case "nogap":
			o.GapRewrite = false
		case "nodataonly":
			o.DataOnly = false
		case "nogc":
			o.GC = false
		case "nointerleave":
			o.Interleave = false
		case "novar":
			o.VarTypes = false
		case "noreopen":
			o.Reopen = false
		case "bigfile":
			o.FileSizes = []int64{1 << 30}
		case "onegroup":
			o.MaxGroups = 1
		case "small":
			o.MaxSessions, o.MaxData, o.MaxChunks = 2, 1, 2
		}
	}
	s := cskit.Gen(r, o)
	h.Count("whole_session_deletes", s.WholeSessionDeletes)
	h.Count("replay_rewrites_of_a_freed_range", s.ReplayRewrites)
	h.Count("head_cuts_of_a_replayed_session", s.HeadCuts)
	rfs, _ := recfs.New(xfs.NewMem())
	e := cskit.NewExec(rfs, s)
	e.CheckGC = true
	e.AutoReads = true // automatic-chunking walks (repaired in repo by the C10 fix commits)
	h.Eval()
	if err := e.Setup(); err != nil {
		h.Inconclusive("setup-error")
		return
	}
	e.Run()
	e.CloseWriters()
	e.DoReads(uint64(c)*104729+3, 10)
	e.FullChecks()
	if err := e.Reopen(); err != nil && !e.Tainted {
		h.Violation(layer, c, "c04:reopen-failed", "close+reopen failed after a legal script: "+err.Error(), witness{Script: s})
	} else {
		e.DoReads(uint64(c)*104729+3, 10)
		e.FullChecks()
	}
	e.CloseAll()
	h.Count("reads_compared", e.ReadsCompared)
	h.Count("samples_compared", e.SamplesCompared)
	h.Count("deletes", e.Deletes)
	h.Count("deletes_expected_refused", e.DeletesRefused)
	h.Count("deleted_model_samples", e.DeletedSamples)
	h.Count("gc_passes", e.GCs)
	h.Count("reopens", e.Reopens)
	if e.UnexpectedErr != "" {
		h.Count("scripts_stopped_by_engine_error", 1)
		h.Seen("engine_errors", trim(e.UnexpectedErr))
	}
	for _, f := range e.Classify("c04") {
		h.Violation(layer, c, f.Sig, f.What, witness{Script: s, Mismatch: f.Mismatch, Note: f.What})
	}
	h.Count("deletes_refused_vacuous", e.DeletesRefusedVacuous)
	if e.DeleteTags != "" {
		h.Count("scripts_with_known_finding_precondition", 1)
	}
	if e.DeletedSamples > 0 && e.SamplesCompared > 0 {
		h.Distinct(s.Shape())
	}
	h.Sample(map[string]any{"case": c, "ops": len(s.Ops), "file_size": s.FileSize, "gc_threshold": s.GCThreshold, "deletes": e.Deletes, "deleted_samples": e.DeletedSamples, "gc": e.GCs, "reads_compared": e.ReadsCompared, "delete_ops": delOps(s)})
}

func delOps(s *cskit.Script) []cskit.Op {
	var out []cskit.Op
	for _, o := range s.Ops {
		if o.Kind == "delete" && len(out) < 4 {
			out = append(out, o)
		}
	}
	return out
}

func trim(s string) string {
	if len(s) > 160 {
		return s[:160]
	}
	return s
}
