package main

// Layer "restart-real": the restart clause of C12 through the REAL restart path.
//
// The restarting node X is a real cluster.Open node with PERSISTENT storage (cluster.Config
// Storage over an in-memory pebble DB from x/go/kv/memkv). Its 1-2 peers are real
// cluster.Open nodes too. All nodes use a 1 h gossip interval, so nothing gossips on its
// own; exchanges are driven deterministically by extra gossip.Gossip drivers that share each
// cluster's store (Gossip.GossipOnceWith), ticks are the host heartbeat increment exactly
// as Gossip.GossipOnce performs it.
//
// A case is 2-5 runs of X. A run ends either gracefully (Cluster.Close, the next run opens
// the same DB) or by a crash at the PRNG-chosen end of the run: every KV pair of the DB is
// copied into a fresh DB (what a process crash leaves; no Close hook has run), the old
// instance is abandoned, and the next run opens the copy.
//
// Oracle (the statement; no wall-clock):
//  (1) the generation X comes up with in run k is strictly greater than every generation
//      any peer has ever recorded for X in earlier runs (and than X's own earlier ones);
//  (2) after a two-way exchange in run k (X->P and P->X) P's record of X is X's current
//      host record (run k's generation, latest state); X's host record is always the one X
//      published last, never previous-run state; X keeps its node key across runs;
//  (3) the monotonicity rules of the seq layer for every view (X's is re-based at restart).

import (
	"bytes"
	"context"
	"encoding/json"
	"fmt"
	"strings"
	"sync"
	"time"

	"github.com/synnaxlabs/aspen/verifx"
	fmock "github.com/synnaxlabs/freighter/mock"
	"github.com/synnaxlabs/x/address"
	xkv "github.com/synnaxlabs/x/kv"
	"github.com/synnaxlabs/x/kv/memkv"

	"verif/lib/harness"
	"verif/lib/prng"
)

type rrNode struct {
	name  string
	addr  address.Address
	cl    *verifx.Cluster
	drv   *verifx.Gossip
	db    xkv.DB  // the durable medium of the node
	guard *procKV // the handle the current run (process) writes through
	prev  verifx.NodeGroup
}

// procKV is the storage handle of ONE process run. When the process ends (crash or exit)
// its goroutines are gone; in this single-process harness the abandoned instance's
// asynchronous flush goroutines (kv.Subscriber.Flush spawns untracked ones) would still
// be able to write into the medium of the next run, which no real restart allows. end()
// makes every later write of the dead run a no-op.
type procKV struct {
	xkv.DB
	mu     sync.Mutex
	dead   bool
	writes []persisted // every state this run wrote, in the order the medium received them
}

// persisted is what the cluster codec (JSON) wrote under the storage key.
type persisted struct {
	Nodes map[string]struct {
		Heartbeat struct{ Generation, Version uint32 }
	}
	HostKey    uint32
	ClusterKey string
}

func (p persisted) hostGen() uint32 { return p.Nodes[fmt.Sprint(p.HostKey)].Heartbeat.Generation }
func (p persisted) noClusterKey() bool {
	return p.ClusterKey == "" || p.ClusterKey == "00000000-0000-0000-0000-000000000000"
}

func (p *procKV) Set(ctx context.Context, key, value []byte, opts ...any) error {
	p.mu.Lock()
	defer p.mu.Unlock()
	if p.dead {
		return nil
	}
	var st persisted
	if json.Unmarshal(value, &st) == nil {
		p.writes = append(p.writes, st)
	}
	return p.DB.Set(ctx, key, value, opts...)
}

// regressed reports whether, within this run, the medium received a state that is older
// than one it had received before (lower host generation, or the cluster key gone).
func (p *procKV) regressed() (gen, ckey bool) {
	p.mu.Lock()
	defer p.mu.Unlock()
	var maxGen uint32
	hadKey := false
	for _, w := range p.writes {
		if w.hostGen() < maxGen {
			gen = true
		}
		if w.hostGen() > maxGen {
			maxGen = w.hostGen()
		}
		if hadKey && w.noClusterKey() {
			ckey = true
		}
		if !w.noClusterKey() {
			hadKey = true
		}
	}
	return
}

func (p *procKV) end() { p.mu.Lock(); p.dead = true; p.mu.Unlock() }

type rrSim struct {
	h      *harness.H
	c      int
	r      *prng.R
	ctx    context.Context
	gnet   *fmock.Network[msg, msg]
	pnet   *fmock.Network[verifx.PledgeRequest, verifx.PledgeResponse]
	peers  []*rrNode
	x      *rrNode
	log    []string
	failed bool
	drvN   int

	flushEvery bool
	run        int
	xKey       verifx.NodeKey
	own        verifx.Node // the host record X published last
	ownGens    []uint32    // generation of every run so far
	maxPeerGen uint32      // greatest generation any peer ever recorded for X
	peerSawX   bool
	changed    bool // membership / state change happened in this run (=> a flush was due)
	xBoot      bool // X is the bootstrapper of the cluster
	staleGen   bool
	staleKey   bool
	shape      strings.Builder
}

func (s *rrSim) logf(f string, a ...any) { s.log = append(s.log, fmt.Sprintf(f, a...)) }

func (s *rrSim) violate(sig, what string) {
	s.failed = true
	s.logf("!! %s: %s", sig, what)
	w := map[string]any{"steps": append([]string(nil), s.log...)}
	var views []string
	for _, n := range s.all() {
		if n.cl != nil {
			views = append(views, n.name+": "+viewStr(n.cl.Store.CopyState().Nodes))
		}
	}
	w["views"] = views
	s.h.Violation("restart-real", s.c, sig, what, w)
}

func (s *rrSim) all() []*rrNode {
	out := append([]*rrNode(nil), s.peers...)
	if s.x != nil {
		out = append(out, s.x)
	}
	return out
}

// open runs the real cluster.Open for n (join, bootstrap or restart, as Open decides).
func (s *rrSim) open(n *rrNode, peers []address.Address) (err error) {
	defer func() {
		// cluster.Open dereferences its nil result in a deferred cleanup when Pledge
		// fails (return nil, err with a named result); not a C12 matter: inconclusive.
		if r := recover(); r != nil {
			err = fmt.Errorf("cluster.Open panicked: %v", r)
		}
	}()
	gs := s.gnet.UnaryServer(n.addr)
	ps := s.pnet.UnaryServer(n.addr)
	cfg := verifx.ClusterConfig{
		HostAddress: n.addr,
		Gossip: verifx.GossipConfig{
			TransportClient: s.gnet.UnaryClient(), TransportServer: gs, Interval: time.Hour,
		},
		Pledge: verifx.PledgeConfig{
			TransportClient: s.pnet.UnaryClient(), TransportServer: ps, Peers: peers,
			RequestTimeout: 100 * time.Millisecond, RetryInterval: 2 * time.Microsecond, RetryScale: 1.2,
		},
	}
	if n.db != nil {
		n.guard = &procKV{DB: n.db}
		cfg.Storage = n.guard
		if s.flushEvery {
			cfg.StorageFlushInterval = -1 * time.Second // cluster.FlushOnEvery
		}
	}
	ctx, cancel := context.WithTimeout(s.ctx, 5*time.Second)
	defer cancel()
	cl, err := verifx.OpenCluster(ctx, cfg)
	if err != nil {
		return err
	}
	n.cl = cl
	s.drvN++
	drv, err := verifx.NewGossip(verifx.GossipConfig{
		Store:           cl.Store,
		TransportClient: s.gnet.UnaryClient(),
		TransportServer: s.gnet.UnaryServer(address.Address(fmt.Sprintf("driver-%d", s.drvN))),
		Interval:        time.Hour,
	})
	if err != nil {
		return err
	}
	n.drv = drv
	n.prev = cl.Store.CopyState().Nodes
	return nil
}

func (s *rrSim) observe(where string) {
	for _, n := range s.all() {
		if n.cl == nil {
			continue
		}
		cur := n.cl.Store.CopyState().Nodes
		for k, p := range n.prev {
			q, ok := cur[k]
			switch {
			case !ok:
				s.violate("c12:restart-real:regress:member-record-removed",
					fmt.Sprintf("%s lost its record of member %d at %s (was %s)", n.name, k, where, recStr(p)))
			case hbCmp(q.Heartbeat, p.Heartbeat) < 0:
				s.violate("c12:restart-real:regress:heartbeat-went-backwards",
					fmt.Sprintf("%s's record of member %d went from %s to %s at %s", n.name, k, recStr(p), recStr(q), where))
			case q != p && hbCmp(q.Heartbeat, p.Heartbeat) == 0:
				s.violate("c12:restart-real:regress:record-replaced-without-newer-heartbeat",
					fmt.Sprintf("%s's record of member %d changed from %s to %s at %s with an equal heartbeat", n.name, k, recStr(p), recStr(q), where))
			}
		}
		n.prev = cur
		if n != s.x && s.xKey != 0 {
			if rec, ok := cur[s.xKey]; ok {
				s.peerSawX = true
				if rec.Heartbeat.Generation > s.maxPeerGen {
					s.maxPeerGen = rec.Heartbeat.Generation
				}
			}
		}
	}
	if s.x != nil && s.x.cl != nil && s.xKey != 0 {
		if got := s.x.cl.Store.GetHost(); got != s.own {
			sig := "c12:restart-real:own-record-overwritten"
			if len(s.ownGens) > 0 && got.Heartbeat.Generation < s.ownGens[len(s.ownGens)-1] {
				sig = "c12:restart-real:own-record-overwritten-by-previous-run-state"
			}
			s.violate(sig, fmt.Sprintf("x's host record is %s at %s but the state it published last in run %d is %s",
				recStr(got), where, s.run, recStr(s.own)))
			s.own = got
		}
	}
}

func (s *rrSim) tick(n *rrNode) {
	host := n.cl.Store.GetHost()
	host.Heartbeat = host.Heartbeat.Increment()
	n.cl.Store.SetNode(s.ctx, host)
	if n == s.x {
		s.own = host
	}
	s.logf("tick %s -> %s", n.name, hbStr(host.Heartbeat))
	s.observe("tick")
}

func (s *rrSim) stateChangeX() {
	host := s.x.cl.Store.GetHost()
	host.State = verifx.NodeState((int(host.State) + 1 + s.r.Intn(2)) % 3) // healthy/suspect/dead
	host.Heartbeat = host.Heartbeat.Increment()
	s.x.cl.Store.SetNode(s.ctx, host)
	s.own = host
	s.changed = true
	s.logf("state x -> s%d %s", host.State, hbStr(host.Heartbeat))
	s.observe("state-change")
}

func (s *rrSim) exchange(a, b *rrNode) {
	s.logf("exchange %s -> %s", a.name, b.name)
	if err := a.drv.GossipOnceWith(s.ctx, b.addr); err != nil {
		s.logf("exchange error: %v", err)
		s.h.Inconclusive("restart-real-exchange-error")
	}
	s.h.Count("rr_exchanges", 1)
	s.observe("exchange " + a.name + "->" + b.name)
}

// twoWay: oracle (2).
func (s *rrSim) twoWay(p *rrNode) {
	s.exchange(s.x, p)
	s.exchange(p, s.x)
	s.h.Count("rr_two_way_checks", 1)
	if s.failed {
		return
	}
	own := s.x.cl.Store.GetHost()
	got, ok := p.cl.Store.CopyState().Nodes[s.xKey]
	switch {
	case !ok:
		s.violate("c12:restart-real:peer-has-no-record-after-two-way-exchange",
			fmt.Sprintf("after x->%s and %s->x in run %d, %s has no record of x (x holds %s)", p.name, p.name, s.run, p.name, recStr(own)))
	case got.Heartbeat.Generation != own.Heartbeat.Generation:
		s.violate("c12:restart-real:peer-keeps-previous-run-generation",
			fmt.Sprintf("after a two-way exchange in run %d, %s holds %s for x although x's host record is %s", s.run, p.name, recStr(got), recStr(own)))
	case got != own:
		s.violate("c12:restart-real:peer-keeps-stale-state-after-two-way-exchange",
			fmt.Sprintf("after a two-way exchange in run %d, %s holds %s for x although x's host record is %s", s.run, p.name, recStr(got), recStr(own)))
	}
}

func (s *rrSim) snapshot(src xkv.DB) xkv.DB {
	dst := memkv.New()
	it, err := src.OpenIterator(xkv.IteratorOptions{})
	if err != nil {
		panic(err)
	}
	n := 0
	for ok := it.First(); ok; ok = it.Next() {
		if err := dst.Set(s.ctx, bytes.Clone(it.Key()), bytes.Clone(it.Value())); err != nil {
			panic(err)
		}
		n++
		s.logf("   storage at crash: %s = %s", it.Key(), it.Value())
	}
	_ = it.Close()
	s.h.Count("rr_kv_pairs_in_crash_snapshots", n)
	return dst
}

// endRun ends X's current run and starts the next one through the real cluster.Open.
func (s *rrSim) endRun() bool {
	crash := s.r.Intn(100) < 60
	if !s.changed {
		s.h.Count("rr_pure_heartbeat_runs", 1)
	}
	old := s.x.cl
	defer func(g *procKV) {
		gen, ck := g.regressed()
		s.staleGen, s.staleKey = gen, ck
		if gen {
			s.h.Count("rr_runs_where_storage_received_an_older_generation_after_a_newer_one", 1)
		}
		if ck {
			s.h.Count("rr_runs_where_storage_lost_the_cluster_key", 1)
			rrNote.Do(func() {
				fmt.Printf("NOTE: C12 restart-real: a stale store-change notification (observer goroutine of SetHost/SetState started before goFlushStore subscribed) was flushed over the open-time flush: persisted cluster state lost its cluster key and members (case %d)\n", s.c)
			})
		}
	}(s.x.guard)
	if crash {
		settle := s.r.Bool()
		if settle {
			time.Sleep(2 * time.Millisecond) // let asynchronous flushes land (both outcomes are crash states)
		}
		snap := s.snapshot(s.x.db)
		s.x.guard.end() // the process is gone: nothing it still does reaches any storage
		_ = old.Close()
		_ = s.x.db.Close()
		s.x.db = snap
		s.h.Count("rr_crash_restarts", 1)
		s.shape.WriteString("C")
		s.logf("== run %d ends: CRASH (settled=%v, membership/state change in run=%v)", s.run, settle, s.changed)
	} else {
		if err := old.Close(); err != nil {
			s.logf("close error: %v", err)
		}
		s.x.guard.end() // process exit after Close returned
		s.h.Count("rr_graceful_restarts", 1)
		s.shape.WriteString("G")
		s.logf("== run %d ends: graceful Close (membership/state change in run=%v)", s.run, s.changed)
	}
	s.x.cl, s.x.drv = nil, nil
	prevOwn := s.own
	staleGenPrev, _ := s.x.guard.regressed()
	s.run++
	s.changed = false
	// the operator's peer list is still configured on half of the restarts
	var reopenPeers []address.Address
	if s.r.Bool() {
		reopenPeers = []address.Address{s.peers[0].addr}
	}
	if err := s.open(s.x, reopenPeers); err != nil {
		s.logf("reopen failed: %v", err)
		s.h.Inconclusive("restart-real-reopen-failed")
		return false
	}
	host := s.x.cl.Store.GetHost()
	s.logf("== run %d: x is up as %s view{%s}", s.run, recStr(host), viewStr(s.x.prev))
	if host.Key != s.xKey {
		s.violate("c12:restart-real:node-key-changed-across-restart",
			fmt.Sprintf("x was member %d in run %d and came up as member %d in run %d", s.xKey, s.run-1, host.Key, s.run))
		return false
	}
	gen := host.Heartbeat.Generation
	if (s.peerSawX && gen <= s.maxPeerGen || gen <= s.ownGens[len(s.ownGens)-1]) && staleGenPrev {
		// classified by cause, observed at the storage seam during the previous run
		s.violate("c12:restart-real:generation-reused:previous-generation-state-flushed-over-the-open-time-flush",
			fmt.Sprintf("x came up in run %d with %s, the generation of run %d (last published %s; peers recorded generation %d): during run %d the storage received the pre-restart state AFTER the state flushed when the run opened",
				s.run, recStr(host), s.run-1, recStr(prevOwn), s.maxPeerGen, s.run-1))
	} else if s.peerSawX && gen <= s.maxPeerGen {
		s.violate("c12:restart-real:generation-not-greater-than-one-peers-recorded",
			fmt.Sprintf("x came up in run %d with %s; peers have recorded generation %d for it in earlier runs (last published %s)",
				s.run, recStr(host), s.maxPeerGen, recStr(prevOwn)))
	} else if gen <= s.ownGens[len(s.ownGens)-1] {
		s.violate("c12:restart-real:generation-not-greater-than-previous-run",
			fmt.Sprintf("x came up in run %d with %s; its previous run had generation %d", s.run, recStr(host), s.ownGens[len(s.ownGens)-1]))
	}
	s.ownGens = append(s.ownGens, gen)
	s.own = host
	s.observe("restart")
	return !s.failed
}

// coord is the member new peers pledge through: the bootstrapper.
func (s *rrSim) coord() *rrNode {
	if s.xBoot {
		return s.x
	}
	return s.peers[0]
}

func (s *rrSim) joinPeer() {
	// a pledge needs a majority of HEALTHY members in the coordinator's view; while X has
	// declared itself suspect/dead a 2-member cluster cannot admit anybody (not C12's
	// business), so the join is only attempted when the coordinator sees everyone healthy.
	co := s.coord()
	for _, m := range co.cl.Store.CopyState().Nodes {
		if m.State != verifx.NodeStateHealthy {
			s.tick(co)
			return
		}
	}
	n := &rrNode{name: fmt.Sprintf("p%d", len(s.peers)+1), addr: address.Address(fmt.Sprintf("peer-%d", len(s.peers)+1))}
	if err := s.open(n, []address.Address{co.addr}); err != nil {
		s.h.Inconclusive("restart-real-peer-join-failed")
		return
	}
	s.peers = append(s.peers, n)
	s.changed = true
	s.logf("join %s as %s", n.name, recStr(n.cl.Store.GetHost()))
	// make the membership change visible everywhere (ticks so a (0,0) joiner is published)
	s.tick(n)
	for _, m := range s.all() {
		if m != n && m.cl != nil {
			s.exchange(n, m)
		}
	}
}

func (s *rrSim) step() {
	r := s.r
	p := prng.Pick(r, s.peers)
	switch k := r.Intn(100); {
	case k < 22:
		s.shape.WriteString("t")
		s.tick(s.x)
	case k < 32:
		s.shape.WriteString("u")
		s.tick(p)
	case k < 50:
		s.shape.WriteString("x")
		s.exchange(s.x, p)
	case k < 64:
		s.shape.WriteString("y")
		s.exchange(p, s.x)
	case k < 72 && len(s.peers) >= 2:
		s.shape.WriteString("z")
		s.exchange(s.peers[0], s.peers[1])
	case k < 82:
		s.shape.WriteString("s")
		s.stateChangeX()
	case k < 88 && len(s.peers) < 2:
		s.shape.WriteString("j")
		s.joinPeer()
	default:
		s.shape.WriteString("w")
		s.twoWay(p)
	}
}

func runRestartReal(h *harness.H, c int) {
	r := h.Rand("restart-real", c)
	s := &rrSim{h: h, c: c, r: r, ctx: context.Background(),
		gnet: fmock.NewNetwork[msg, msg](),
		pnet: fmock.NewNetwork[verifx.PledgeRequest, verifx.PledgeResponse]()}
	h.Eval()
	s.flushEvery = r.Bool()
	defer func() {
		for _, n := range s.all() {
			if n.cl != nil {
				_ = n.cl.Close()
			}
			if n.db != nil {
				if n.guard != nil {
					n.guard.end()
				}
				_ = n.db.Close()
			}
		}
	}()
	s.xBoot = r.Chance(1, 3)
	if s.xBoot {
		// X bootstraps the cluster (with storage); its peers join through it
		s.x = &rrNode{name: "x", addr: "node-x", db: memkv.New()}
		if err := s.open(s.x, nil); err != nil {
			h.Inconclusive("restart-real-bootstrap-failed")
			s.x = nil
			return
		}
	} else {
		boot := &rrNode{name: "p1", addr: "peer-1"}
		if err := s.open(boot, nil); err != nil {
			h.Inconclusive("restart-real-bootstrap-failed")
			return
		}
		s.peers = append(s.peers, boot)
		s.logf("bootstrap p1 as %s", recStr(boot.cl.Store.GetHost()))
		if r.Bool() {
			s.joinPeer()
		}
		s.x = &rrNode{name: "x", addr: "node-x", db: memkv.New()}
		if err := s.open(s.x, []address.Address{boot.addr}); err != nil {
			h.Inconclusive("restart-real-join-failed")
			s.x = nil
			return
		}
	}
	s.run = 1
	s.own = s.x.cl.Store.GetHost()
	s.xKey = s.own.Key
	s.ownGens = []uint32{s.own.Heartbeat.Generation}
	s.changed = true // the join / bootstrap itself
	s.logf("== run 1: x is up as %s view{%s} (bootstrapper: %v, flush on every change: %v)", recStr(s.own), viewStr(s.x.prev), s.xBoot, s.flushEvery)
	s.observe("join")
	if s.xBoot {
		for i, n := 0, r.Range(1, 2); i < n; i++ {
			s.joinPeer()
		}
		if len(s.peers) == 0 {
			h.Inconclusive("restart-real-no-peer")
			return
		}
	}
	runs := r.Range(2, 5)
	fmt.Fprintf(&s.shape, "f%vb%v|", s.flushEvery, s.xBoot)
	for k := 1; k <= runs && !s.failed; k++ {
		pure := r.Chance(2, 5) // runs with nothing but heartbeat ticks and exchanges
		for i, n := 0, r.Range(2, 9); i < n && !s.failed; i++ {
			if pure {
				switch r.Intn(4) {
				case 0:
					s.shape.WriteString("t")
					s.tick(s.x)
				case 1:
					s.shape.WriteString("x")
					s.exchange(s.x, prng.Pick(r, s.peers))
				case 2:
					s.shape.WriteString("y")
					s.exchange(prng.Pick(r, s.peers), s.x)
				default:
					s.shape.WriteString("w")
					s.twoWay(prng.Pick(r, s.peers))
				}
			} else {
				s.step()
			}
		}
		if s.failed {
			break
		}
		if k < runs {
			if !s.endRun() {
				break
			}
			s.shape.WriteString("|")
		}
	}
	if !s.failed && s.x.cl != nil {
		for _, p := range s.peers {
			if !s.failed {
				s.twoWay(p)
			}
		}
	}
	h.Count("rr_runs", s.run)
	if s.run >= 2 && s.peerSawX {
		// distinct + non-trivial: flush mode + run endings + step kinds of a case in which
		// X restarted at least once after a peer had recorded it
		h.Distinct("rr|" + s.shape.String())
	}
	h.Sample(map[string]any{"layer": "restart-real", "case": c, "steps": s.log})
}

var rrNote sync.Once

func layerRestartReal(h *harness.H) {
	h.AddRule("restart-real: one case = real cluster.Open node X with persistent storage + 1-2 real peers, 2-5 runs of X ending by graceful Close (reopen same DB) or crash (copy of every KV pair at the end of the run, old instance abandoned), 2-9 steps per run from {tick X, tick peer, exchange X->P, P->X, P1->P2, state change of X, peer join, two-way exchange + check}, 40% of the runs heartbeat/exchange only; flush-on-every-change or default 1 s flush interval; distinct key = flush mode + run endings + step kinds; non-trivial = >=1 restart after a peer recorded X")
	n := h.N(300, 12000)
	for c := 0; c < n; c++ {
		if h.Skip("restart-real", c) {
			continue
		}
		runRestartReal(h, c)
	}
}
