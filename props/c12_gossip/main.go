// C12 — Membership gossip only moves views forward and converges.
//
// Real store.Store + gossip.Gossip instances (via aspen/verifx) on freighter's in-memory
// unary network. A hooking client decorator sits between every Gossip and the network so
// the monitor (a) observes every node's view after every single message delivery and
// (b) can run other steps *between* the three messages of an exchange (sync, ack
// processing, ack2) without any real concurrency, which keeps the layer deterministic.
//
// Oracle (encodes the statement, with its own heartbeat order; never the code's):
//   - monotonicity: for every node X and member M, across every observation point that is
//     not X's own restart, X's record of M never disappears, its (generation, version)
//     never decreases, and the record only changes together with a strictly greater
//     heartbeat;
//   - convergence: after a closing phase in which every unordered pair of nodes has
//     exchanged gossip once (PRNG order and direction) with no other change, all views
//     are identical and contain every member; (weaker, classification only) the same after
//     every ordered pair has exchanged N+1 times;
//   - restart: after the closing phase no view holds a generation of a member older than
//     that member's own.
package main

import (
	"context"
	"fmt"
	grpct "github.com/synnaxlabs/aspen/transport/grpc"
	fgrpc "github.com/synnaxlabs/freighter/grpc"
	xnet "github.com/synnaxlabs/x/net"
	"google.golang.org/grpc"
	"google.golang.org/grpc/credentials/insecure"
	"sort"
	"strings"
	"sync"

	"github.com/google/uuid"
	"github.com/synnaxlabs/alamos"
	"github.com/synnaxlabs/aspen/verifx"
	"github.com/synnaxlabs/freighter"
	fmock "github.com/synnaxlabs/freighter/mock"
	"github.com/synnaxlabs/x/address"
	"github.com/synnaxlabs/x/version"

	"verif/lib/harness"
	"verif/lib/prng"
)

type msg = verifx.GossipMessage

func main() {
	harness.Main("C12", "exploration",
		harness.Layer{Name: "seq", Run: layerSeq},
		harness.Layer{Name: "seq-grpc", Run: layerSeqGRPC},
		harness.Layer{Name: "conc", Run: layerConc},
		harness.Layer{Name: "restart-real", Run: layerRestartReal},
	)
}

// ---------------------------------------------------------------------------------------
// heartbeat order of the statement: (generation, version) lexicographic.

func hbCmp(a, b version.Heartbeat) int {
	switch {
	case a.Generation != b.Generation:
		if a.Generation < b.Generation {
			return -1
		}
		return 1
	case a.Version != b.Version:
		if a.Version < b.Version {
			return -1
		}
		return 1
	}
	return 0
}

func hbStr(h version.Heartbeat) string { return fmt.Sprintf("(%d,%d)", h.Generation, h.Version) }

func recStr(n verifx.Node) string {
	return fmt.Sprintf("%d@%s%s/s%d", n.Key, n.Address, hbStr(n.Heartbeat), n.State)
}

func viewStr(g verifx.NodeGroup) string {
	keys := make([]int, 0, len(g))
	for k := range g {
		keys = append(keys, int(k))
	}
	sort.Ints(keys)
	var sb strings.Builder
	for i, k := range keys {
		if i > 0 {
			sb.WriteByte(' ')
		}
		sb.WriteString(recStr(g[verifx.NodeKey(k)]))
	}
	return sb.String()
}

// ---------------------------------------------------------------------------------------
// simulation

type simNode struct {
	key       verifx.NodeKey
	addr      address.Address
	store     verifx.Store
	g         *verifx.Gossip
	server    freighter.UnaryServer[msg, msg]
	client    *hookClient
	persisted verifx.StoreState // what a restart loads (a flush that may lag behind)
	prev      verifx.NodeGroup  // last observed view (monotonicity oracle)
	busy      bool              // currently inside GossipOnceWith (cannot initiate another)
	own       verifx.Node       // the record of itself this node last published
	maxOwn    version.Heartbeat // greatest heartbeat it ever published
	restarts  int
}

type sim struct {
	h         *harness.H
	layer     string
	c         int
	r         *prng.R
	ctx       context.Context
	net       *fmock.Network[msg, msg]
	grpc      bool     // members talk over aspen's production gRPC transport on loopback
	closers   []func() // transports to shut down when the case is over
	cluster   uuid.UUID
	nodes     []*simNode
	log       []string
	depth     int
	inClosing bool
	// pending interleaving budget for the exchange currently being started
	nestAck, nestAck2 int
	failed            bool
	transfers         int // record changes caused by message deliveries
	deliveries        int
	nested            int
	shape             strings.Builder
}

func (s *sim) logf(f string, a ...any) {
	s.log = append(s.log, strings.Repeat("  ", s.depth)+fmt.Sprintf(f, a...))
}

type hookClient struct {
	inner freighter.UnaryClient[msg, msg]
	s     *sim
	owner *simNode
}

var _ freighter.UnaryClient[msg, msg] = (*hookClient)(nil)

func (c *hookClient) Report() alamos.Report         { return c.inner.Report() }
func (c *hookClient) Use(m ...freighter.Middleware) { c.inner.Use(m...) }

func (c *hookClient) Send(ctx context.Context, target address.Address, req msg) (msg, error) {
	s := c.s
	isAck2 := len(req.Digests) == 0 && len(req.Nodes) != 0
	if isAck2 {
		// ack processing at the initiator has just happened (Merge of ack.Nodes).
		s.observe("ack-merged@" + c.owner.name())
		if n := s.nestAck2; n > 0 {
			s.nestAck2 = 0
			s.runNested(c.owner, n, "before-ack2")
		}
	}
	res, err := c.inner.Send(ctx, target, req)
	s.deliveries++
	if isAck2 {
		s.observe("ack2-delivered")
	} else {
		s.observe("sync-delivered")
		if n := s.nestAck; n > 0 {
			s.nestAck = 0
			s.runNested(c.owner, n, "before-ack")
		}
	}
	return res, err
}

func (n *simNode) name() string { return fmt.Sprintf("n%d", n.key) }

func (s *sim) newGossip(n *simNode) {
	g, err := verifx.NewGossip(verifx.GossipConfig{
		Store:           n.store,
		TransportClient: n.client,
		TransportServer: n.server,
	}, verifx.GossipDefaultConfig)
	if err != nil {
		panic(fmt.Sprintf("gossip.New: %v", err))
	}
	n.g = g
}

func (s *sim) addNode(key verifx.NodeKey, self verifx.Node, known verifx.NodeGroup) *simNode {
	var n *simNode
	if s.grpc {
		// the wiring of aspen.Open's default options
		port, err := xnet.FindOpenPort()
		if err != nil {
			panic(fmt.Sprintf("no free port: %v", err))
		}
		addr := address.Newf("localhost:%d", port)
		pool := fgrpc.NewPool("", grpc.WithTransportCredentials(insecure.NewCredentials()))
		tr := grpct.New(pool)
		if err := tr.Configure(addr, alamos.Instrumentation{}, false); err != nil {
			panic(fmt.Sprintf("grpc transport: %v", err))
		}
		n = &simNode{key: key, addr: addr, server: tr.GossipServer()}
		n.client = &hookClient{inner: tr.GossipClient(), s: s, owner: n}
		s.closers = append(s.closers, func() { _ = tr.Close(); _ = pool.Close() })
		defer func() {
			if err := tr.Serve(); err != nil {
				panic(fmt.Sprintf("grpc serve: %v", err))
			}
		}()
	} else {
		srv := s.net.UnaryServer("")
		n = &simNode{key: key, addr: srv.Address, server: srv}
		n.client = &hookClient{inner: s.net.UnaryClient(), s: s, owner: n}
	}
	n.store = verifx.NewStore(s.ctx)
	self.Key = key
	self.Address = n.addr
	n.store.SetClusterKey(s.ctx, s.cluster)
	n.store.SetHost(s.ctx, self)
	if len(known) > 0 {
		st := n.store.CopyState()
		for k, v := range known {
			if k != key {
				st.Nodes[k] = v
			}
		}
		n.store.SetState(s.ctx, st)
	}
	s.newGossip(n)
	n.own, n.maxOwn = self, self.Heartbeat
	n.persisted = n.store.CopyState()
	n.prev = n.store.CopyState().Nodes
	s.nodes = append(s.nodes, n)
	return n
}

// observe applies the monotonicity oracle to every node.
func (s *sim) observe(where string) {
	for _, n := range s.nodes {
		cur := n.store.CopyState().Nodes
		if got := cur[n.key]; got != n.own {
			s.violate("c12:regress:own-record-overwritten",
				fmt.Sprintf("%s's record of itself is %s at %s but the last state it published is %s",
					n.name(), recStr(got), where, recStr(n.own)))
			n.own = got
		}
		for k, p := range n.prev {
			q, ok := cur[k]
			switch {
			case !ok:
				s.violate("c12:regress:member-record-removed",
					fmt.Sprintf("%s lost its record of member %d at %s (was %s)", n.name(), k, where, recStr(p)))
			case hbCmp(q.Heartbeat, p.Heartbeat) < 0:
				sig := "c12:regress:heartbeat-went-backwards"
				if q.Heartbeat.Generation < p.Heartbeat.Generation {
					sig = "c12:regress:generation-went-backwards"
				}
				s.violate(sig, fmt.Sprintf("%s's record of member %d went from %s to %s at %s",
					n.name(), k, recStr(p), recStr(q), where))
			case q != p && hbCmp(q.Heartbeat, p.Heartbeat) == 0:
				s.violate("c12:regress:record-replaced-without-newer-heartbeat",
					fmt.Sprintf("%s's record of member %d changed from %s to %s at %s with an equal heartbeat",
						n.name(), k, recStr(p), recStr(q), where))
			}
			if ok && q != p {
				s.transfers++
			}
		}
		if len(cur) > len(n.prev) {
			s.transfers += len(cur) - len(n.prev)
		}
		n.prev = cur
	}
}

type witness struct {
	Steps []string `json:"steps"`
	Views []string `json:"views"`
}

func (s *sim) witness() witness {
	w := witness{Steps: append([]string(nil), s.log...)}
	for _, n := range s.nodes {
		w.Views = append(w.Views, n.name()+": "+viewStr(n.store.CopyState().Nodes))
	}
	return w
}

func (s *sim) violate(sig, what string) {
	s.failed = true
	s.logf("!! %s: %s", sig, what)
	s.h.Violation(s.layer, s.c, sig, what, s.witness())
}

// ---- steps ------------------------------------------------------------------------

func (s *sim) tick(n *simNode) {
	host := n.store.GetHost()
	host.Heartbeat = host.Heartbeat.Increment() // exactly what Gossip.GossipOnce does first
	n.store.SetNode(s.ctx, host)
	s.published(n, host, "tick")
	s.logf("tick %s -> %s", n.name(), hbStr(host.Heartbeat))
	s.observe("tick")
}

func (s *sim) stateChange(n *simNode) {
	host := n.store.GetHost()
	host.State = verifx.NodeState((int(host.State) + 1 + s.r.Intn(3)) % 4)
	host.Heartbeat = host.Heartbeat.Increment()
	n.store.SetNode(s.ctx, host)
	s.published(n, host, "state-change")
	s.logf("state %s -> s%d %s", n.name(), host.State, hbStr(host.Heartbeat))
	s.observe("state-change")
}

// published records a state the member itself just wrote; every such state must be newer
// than everything it published before (a restart's new generation included).
func (s *sim) published(n *simNode, host verifx.Node, how string) {
	if hbCmp(host.Heartbeat, n.maxOwn) <= 0 {
		sig := "c12:publish:heartbeat-not-newer-after-" + how
		s.violate(sig, fmt.Sprintf("%s published %s by %s although it had already published heartbeat %s",
			n.name(), recStr(host), how, hbStr(n.maxOwn)))
	}
	n.own = host
	if hbCmp(host.Heartbeat, n.maxOwn) > 0 {
		n.maxOwn = host.Heartbeat
	}
}

func (s *sim) flush(n *simNode) { n.persisted = n.store.CopyState() }

func (s *sim) restart(n *simNode) {
	// cluster.Open on an existing store: load persisted state, bump the generation, and
	// (goFlushStore's FlushSync) persist immediately.
	st := n.persisted
	ns := verifx.NewStore(s.ctx)
	ns.SetState(s.ctx, verifx.StoreState{Nodes: st.Nodes.Copy(), HostKey: st.HostKey, ClusterKey: st.ClusterKey})
	host := ns.GetHost()
	host.Heartbeat = host.Heartbeat.Restart()
	ns.SetNode(s.ctx, host)
	n.store = ns
	s.newGossip(n)
	s.published(n, host, "restart")
	n.persisted = ns.CopyState()
	n.prev = ns.CopyState().Nodes // a restart is not a gossip exchange: re-base the oracle
	n.restarts++
	s.logf("restart %s -> %s view{%s}", n.name(), hbStr(host.Heartbeat), viewStr(n.prev))
}

func (s *sim) join(peerHint *simNode) {
	var maxKey verifx.NodeKey
	for _, n := range s.nodes {
		if n.key > maxKey {
			maxKey = n.key
		}
	}
	known := verifx.NodeGroup{}
	if peerHint != nil {
		known[peerHint.key] = peerHint.store.GetHost()
	}
	n := s.addNode(maxKey+1, verifx.Node{}, known) // heartbeat (0,0) as cluster.Open creates it
	s.logf("join %s view{%s}", n.name(), viewStr(n.prev))
}

func (s *sim) exchange(a, b *simNode, nestAck, nestAck2 int) {
	if a.busy || a == b {
		return
	}
	s.logf("exchange %s -> %s", a.name(), b.name())
	a.busy = true
	s.nestAck, s.nestAck2 = nestAck, nestAck2
	s.depth++
	err := a.g.GossipOnceWith(s.ctx, b.addr)
	s.depth--
	s.nestAck, s.nestAck2 = 0, 0
	a.busy = false
	if err != nil {
		s.logf("exchange error: %v", err)
		s.h.Inconclusive("exchange-error")
	}
	s.observe("exchange-end")
	s.h.Count("exchanges", 1)
}

// runNested runs n steps between two messages of an exchange whose initiator is `init`.
func (s *sim) runNested(init *simNode, n int, where string) {
	if s.depth > 4 {
		return
	}
	s.logf("-- interleaved %s (%d steps)", where, n)
	s.nested++
	for i := 0; i < n; i++ {
		s.randomStep(true)
	}
	s.logf("-- resume")
}

func (s *sim) free() []*simNode {
	var f []*simNode
	for _, n := range s.nodes {
		if !n.busy {
			f = append(f, n)
		}
	}
	return f
}

func (s *sim) randomStep(nested bool) {
	r := s.r
	free := s.free()
	if len(free) == 0 {
		return
	}
	k := r.Intn(100)
	switch {
	case k < 50 && len(s.nodes) >= 2:
		a := prng.Pick(r, free)
		b := prng.Pick(r, s.nodes)
		if a == b {
			b = s.nodes[(indexOf(s.nodes, a)+1+r.Intn(len(s.nodes)-1))%len(s.nodes)]
		}
		na, n2 := 0, 0
		if !nested || s.depth < 3 {
			if r.Chance(1, 4) {
				na = r.Range(1, 3)
			}
			if r.Chance(1, 4) {
				n2 = r.Range(1, 3)
			}
		}
		s.shape.WriteString("x")
		s.exchange(a, b, na, n2)
	case k < 68:
		s.shape.WriteString("t")
		s.tick(prng.Pick(r, free))
	case k < 78:
		s.shape.WriteString("s")
		s.stateChange(prng.Pick(r, free))
	case k < 84:
		s.shape.WriteString("f")
		s.flush(prng.Pick(r, free))
	case k < 92:
		// a node in the middle of an exchange (busy) cannot restart; the others can
		n := prng.Pick(r, free)
		s.shape.WriteString("r")
		s.restart(n)
	default:
		if len(s.nodes) < 4 {
			var hint *simNode
			if r.Bool() {
				hint = prng.Pick(r, s.nodes)
			}
			s.shape.WriteString("j")
			s.join(hint)
		} else {
			s.shape.WriteString("t")
			s.tick(prng.Pick(r, free))
		}
	}
}

func indexOf(ns []*simNode, n *simNode) int {
	for i, x := range ns {
		if x == n {
			return i
		}
	}
	return -1
}

// history generates the records a member has had so far (one per heartbeat), so that
// stale copies held by other nodes are records the member really published.
func history(r *prng.R, steps int) []verifx.Node {
	cur := verifx.Node{}
	out := []verifx.Node{cur}
	for i := 0; i < steps; i++ {
		switch k := r.Intn(10); {
		case k < 6:
			cur.Heartbeat = cur.Heartbeat.Increment()
		case k < 8:
			cur.State = verifx.NodeState((int(cur.State) + 1 + r.Intn(3)) % 4)
			cur.Heartbeat = cur.Heartbeat.Increment()
		default:
			cur.Heartbeat = cur.Heartbeat.Restart()
		}
		out = append(out, cur)
	}
	return out
}

func (s *sim) setup() {
	r := s.r
	n0 := r.Range(2, 4)
	if r.Chance(1, 3) {
		n0 = r.Range(1, 3)
	}
	hists := make([][]verifx.Node, n0)
	for i := range hists {
		steps := 0
		if !r.Chance(1, 3) { // a third of the members still have heartbeat (0,0)
			steps = r.Range(1, 6)
		}
		hists[i] = history(r, steps)
	}
	// servers first so that every record carries the right address
	for i := 0; i < n0; i++ {
		h := hists[i]
		s.addNode(verifx.NodeKey(i+1), h[len(h)-1], nil)
	}
	mode := r.Intn(4) // 0: everyone knows only itself; 1: random stale; 2: chain; 3: full but stale
	for i, n := range s.nodes {
		st := n.store.CopyState()
		for j, m := range s.nodes {
			if i == j {
				continue
			}
			know := false
			switch mode {
			case 1:
				know = r.Bool()
			case 2:
				know = j == i-1
			case 3:
				know = true
			}
			if !know {
				continue
			}
			h := hists[j]
			rec := h[r.Intn(len(h))]
			rec.Key, rec.Address = m.key, m.addr
			st.Nodes[m.key] = rec
		}
		n.store.SetState(s.ctx, st)
		n.persisted = n.store.CopyState()
		n.prev = n.store.CopyState().Nodes
	}
	for _, n := range s.nodes {
		s.logf("init %s view{%s}", n.name(), viewStr(n.prev))
	}
	fmt.Fprintf(&s.shape, "n%dm%d|", n0, mode)
}

// closing runs the closing phases and the convergence oracle.
func (s *sim) closing() {
	s.inClosing = true
	r := s.r
	n := len(s.nodes)
	if n < 2 {
		return
	}
	type pair struct{ a, b int }
	var pairs []pair
	for i := 0; i < n; i++ {
		for j := i + 1; j < n; j++ {
			if r.Bool() {
				pairs = append(pairs, pair{i, j})
			} else {
				pairs = append(pairs, pair{j, i})
			}
		}
	}
	prng.Shuffle(r, pairs)
	s.logf("== closing phase 1: every unordered pair once")
	for _, p := range pairs {
		s.exchange(s.nodes[p.a], s.nodes[p.b], 0, 0)
	}
	s.h.Count("closing_checks", 1)
	bad := s.diffViews()
	if len(bad) > 0 {
		zero := 0
		for _, d := range bad {
			if d.zeroHB {
				zero++
			}
		}
		if zero == len(bad) {
			d := bad[0]
			s.violate("c12:converge:zero-heartbeat-member-not-sent-in-ack2",
				fmt.Sprintf("after every pair of nodes exchanged gossip once with no other change, %s still has no record of member %d, whose own heartbeat is (0,0): %d (node,member) entries missing, all of this kind",
					d.holder, d.member, len(bad)))
		} else {
			d := bad[0]
			for _, x := range bad {
				if !x.zeroHB {
					d = x
					break
				}
			}
			sig := "c12:converge:views-differ-after-every-pair-exchanged"
			if d.oldGen {
				sig = "c12:restart:old-generation-survives-after-every-pair-exchanged"
			}
			s.violate(sig, fmt.Sprintf("after every pair of nodes exchanged gossip once with no other change, %s holds %s for member %d but the member itself holds %s (%d differing entries)",
				d.holder, d.have, d.member, d.want, len(bad)))
		}
	}
	s.logf("== closing phase 2: every ordered pair, %d rounds", n+1)
	for round := 0; round <= n; round++ {
		for i := 0; i < n; i++ {
			for j := 0; j < n; j++ {
				if i != j {
					s.exchange(s.nodes[i], s.nodes[j], 0, 0)
				}
			}
		}
	}
	s.h.Count("closing_checks", 1)
	if bad := s.diffViews(); len(bad) > 0 {
		d := bad[0]
		sig := "c12:converge:views-differ-after-all-ordered-pairs"
		if d.oldGen {
			sig = "c12:restart:old-generation-survives-after-all-ordered-pairs"
		}
		s.violate(sig, fmt.Sprintf("after every ordered pair exchanged gossip %d times with no other change, %s holds %s for member %d but the member itself holds %s (%d differing entries)",
			n+1, d.holder, d.have, d.member, d.want, len(bad)))
	}
}

type viewDiff struct {
	holder     string
	member     verifx.NodeKey
	have, want string
	zeroHB     bool // entry missing and the member's own heartbeat is (0,0)
	oldGen     bool
}

// diffViews: identical views containing every member <=> every node's record of every
// member equals the member's own record of itself.
func (s *sim) diffViews() []viewDiff {
	var out []viewDiff
	for _, m := range s.nodes {
		own := m.store.GetHost()
		for _, x := range s.nodes {
			got, ok := x.store.CopyState().Nodes[m.key]
			if ok && got == own {
				continue
			}
			d := viewDiff{holder: x.name(), member: m.key, want: recStr(own), have: "nothing"}
			if ok {
				d.have = recStr(got)
				d.oldGen = got.Heartbeat.Generation < own.Heartbeat.Generation
			} else {
				d.zeroHB = own.Heartbeat == version.Heartbeat{}
			}
			out = append(out, d)
		}
		// a view must not contain anything that is not a member
	}
	for _, x := range s.nodes {
		for k := range x.store.CopyState().Nodes {
			found := false
			for _, m := range s.nodes {
				if m.key == k {
					found = true
				}
			}
			if !found {
				out = append(out, viewDiff{holder: x.name(), member: k, have: "a record", want: "no such member"})
			}
		}
	}
	return out
}

func runCase(h *harness.H, layer string, c int) {
	r := h.Rand(layer, c)
	s := &sim{h: h, layer: layer, c: c, r: r, ctx: context.Background(),
		net: fmock.NewNetwork[msg, msg](), grpc: layer == "seq-grpc"}
	defer func() {
		for _, f := range s.closers {
			f()
		}
	}()
	b := r.Bytes(16)
	copy(s.cluster[:], b)
	h.Eval()
	s.setup()
	steps := r.Range(10, 60)
	if h.Thorough() && r.Chance(1, 3) {
		steps = r.Range(60, 200) // deeper histories (more restarts/interleavings per case)
	}
	for i := 0; i < steps && !s.failed; i++ {
		s.randomStep(false)
	}
	if !s.failed {
		s.closing()
	}
	h.Count("message_deliveries", s.deliveries)
	h.Count("record_transfers", s.transfers)
	h.Count("interleaved_blocks", s.nested)
	rs := 0
	for _, n := range s.nodes {
		rs += n.restarts
	}
	h.Count("restarts", rs)
	h.Count("nodes", len(s.nodes))
	if s.transfers > 0 && len(s.nodes) >= 2 {
		// distinct + non-trivial: the step-kind string (with initial shape) of a case in
		// which at least one record actually moved between two nodes
		h.Distinct(s.shape.String())
	}
	h.Sample(map[string]any{"case": c, "nodes": len(s.nodes), "steps": s.log})
}

// layerSeqGRPC: the seq cases with every member behind aspen's production gRPC transport
// (message translation to and from the wire format included) instead of the mock network.
func layerSeqGRPC(h *harness.H) {
	h.AddRule("seq-grpc: the seq cases (initial views, steps, closing phases, same oracles) with every member served by aspen/transport/grpc on a loopback port, so that gossip messages cross the protobuf translators; fewer cases, one worker")
	n := h.N(120, 1500)
	for c := 0; c < n; c++ {
		if h.Skip("seq-grpc", c) {
			continue
		}
		runCase(h, "seq-grpc", c)
	}
}

func layerSeq(h *harness.H) {
	h.AddRule("seq: one case = PRNG-chosen initial views (1-4 nodes; isolated / random stale / chain / full-but-stale; a third of members at heartbeat (0,0)) + 10-60 steps from {exchange (optionally with 1-3 other steps interleaved before the ack is processed and/or before ack2 is sent), tick, state change, flush, restart from last flush, join} + closing phases; distinct key = initial shape + step-kind string; non-trivial = at least one member record moved between nodes")
	h.Assume("state changes of a member always come with a heartbeat increment (the store has no other way to publish them)")
	h.Assume("'healthy nodes' in the convergence clause = all running nodes; the State field is payload")
	n := h.N(5000, 200000)
	workers := 8
	var wg sync.WaitGroup
	ch := make(chan int, 64)
	for w := 0; w < workers; w++ {
		wg.Add(1)
		go func() {
			defer wg.Done()
			for c := range ch {
				runCase(h, "seq", c)
			}
		}()
	}
	for c := 0; c < n; c++ {
		if h.Skip("seq", c) {
			continue
		}
		ch <- c
	}
	close(ch)
	wg.Wait()
}

// ---------------------------------------------------------------------------------------
// conc: real goroutine concurrency (outside the statement's quantifier, which ranges over
// *sequences* of exchanges/ticks). Every node runs the real Gossip.GossipOnce loop (tick +
// exchange with a random peer) on its own goroutine while the mock network runs the
// peer-side handlers on the callers' goroutines, as a real transport does. One sampler per
// node polls CopyState and applies the same monotonicity rule to successive samples.
// Regressions seen here are reported as a NOTE and a counter, never as a violation: they
// come from store.SetNode/Merge being copy-modify-set without a lock spanning the three
// steps, i.e. from a tick racing an exchange, not from an exchange sequence. The layer's
// deciding parts are the race detector (store observers, handlers) and the final
// convergence check after the goroutines stopped (closing phase as in seq).
func layerConc(h *harness.H) {
	h.AddRule("conc: 3-4 nodes run GossipOnce loops concurrently (real goroutines), then the seq closing phases; distinct key = case parameters; non-trivial = records moved")
	n := h.N(40, 1500)
	for c := 0; c < n; c++ {
		if h.Skip("conc", c) {
			continue
		}
		runConc(h, c)
	}
}

func runConc(h *harness.H, c int) {
	r := h.Rand("conc", c)
	s := &sim{h: h, layer: "conc", c: c, r: r, ctx: context.Background(), net: fmock.NewNetwork[msg, msg]()}
	copy(s.cluster[:], r.Bytes(16))
	h.Eval()
	nn := r.Range(3, 4)
	iters := r.Range(20, 80)
	// node 1 bootstraps, the others know themselves and node 1 (as after cluster.Open)
	for i := 0; i < nn; i++ {
		known := verifx.NodeGroup{}
		if i > 0 {
			known[s.nodes[0].key] = s.nodes[0].store.GetHost()
		}
		s.addNode(verifx.NodeKey(i+1), verifx.Node{}, known)
	}
	// concurrent phase: hooks must not touch sim state -> swap in pass-through clients
	for _, n := range s.nodes {
		g, err := verifx.NewGossip(verifx.GossipConfig{Store: n.store, TransportClient: s.net.UnaryClient(), TransportServer: n.server}, verifx.GossipDefaultConfig)
		if err != nil {
			panic(err)
		}
		n.g = g
	}
	var wg, swg sync.WaitGroup
	stop := make(chan struct{})
	var mu sync.Mutex
	regress := 0
	var firstRegress string
	samples := 0
	for _, n := range s.nodes {
		swg.Add(1)
		go func(n *simNode) {
			defer swg.Done()
			prev := n.store.CopyState().Nodes
			loc, cnt := 0, 0
			var first string
			for {
				select {
				case <-stop:
					mu.Lock()
					regress += loc
					samples += cnt
					if firstRegress == "" {
						firstRegress = first
					}
					mu.Unlock()
					return
				default:
				}
				cur := n.store.CopyState().Nodes
				cnt++
				for k, p := range prev {
					q, ok := cur[k]
					if !ok || hbCmp(q.Heartbeat, p.Heartbeat) < 0 {
						loc++
						if first == "" {
							first = fmt.Sprintf("%s: member %d %s -> %s", n.name(), k, recStr(p), recStr(q))
						}
					}
				}
				prev = cur
			}
		}(n)
	}
	for _, n := range s.nodes {
		wg.Add(1)
		go func(n *simNode) {
			defer wg.Done()
			for i := 0; i < iters; i++ {
				if err := n.g.GossipOnce(s.ctx); err != nil {
					h.Inconclusive("conc-exchange-error")
				}
			}
		}(n)
	}
	wg.Wait()
	close(stop)
	swg.Wait()
	h.Count("conc_gossip_rounds", nn*iters)
	h.Count("conc_samples", samples)
	h.Count("conc_tick_vs_exchange_regressions_seen", regress)
	if regress > 0 {
		noteOnce.Do(func() {
			fmt.Printf("NOTE: C12 conc layer saw a node's view regress while ticks and exchanges ran concurrently (outside the statement's quantifier; store.SetNode/Merge are copy-modify-set): %s\n", firstRegress)
		})
	}
	// back to the hooked clients for the deterministic closing phases
	for _, n := range s.nodes {
		s.newGossip(n)
		n.prev = n.store.CopyState().Nodes
	}
	// A tick racing a merge can also lose the node's *own* heartbeat increments, leaving
	// peers with a newer record of the node than the node itself holds. That is part of
	// the same out-of-quantifier effect (counted); re-base so the sequential closing
	// phases start from a state a sequence of steps could have produced.
	for _, n := range s.nodes {
		host := n.store.GetHost()
		lost := false
		for _, x := range s.nodes {
			if rec, ok := x.store.CopyState().Nodes[n.key]; ok && hbCmp(rec.Heartbeat, host.Heartbeat) > 0 {
				host.Heartbeat = rec.Heartbeat
				lost = true
			}
		}
		if lost {
			h.Count("conc_own_heartbeat_behind_peers", 1)
			host.Heartbeat = host.Heartbeat.Increment()
			n.store.SetNode(s.ctx, host)
		}
		n.own = host
		n.maxOwn = host.Heartbeat
		n.prev = n.store.CopyState().Nodes
	}
	s.logf("after %d concurrent GossipOnce rounds per node", iters)
	s.closing()
	h.Distinct(fmt.Sprintf("conc|n%d|i%d", nn, iters))
}

var noteOnce sync.Once
