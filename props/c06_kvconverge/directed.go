package main

// Layer "directed": fault schedules aimed at specific races of the convergence machinery
// (DESIGN §5), built from the same primitives as the random cluster layer: message loss on
// the operation channel of one node, held-back (delayed) feedback, stop / restart. Every
// schedule is a legal behaviour of an asynchronous lossy network plus node restarts, which
// the property quantifies over. The oracle is the cluster oracle (after observed
// quiescence every node holds what the leaseholder holds, and the leaseholder holds the
// client's last acknowledged write) plus, for the two schedules where a node receives two
// versions of a key, "the stored operation is never replaced by an older one".

import (
	"context"
	"fmt"
	"os"
	"runtime"
	"strings"
	"sync"
	"time"

	"verif/lib/aspenkit"
	"verif/lib/harness"
	"verif/lib/prng"
)

type scenario struct {
	name string
	run  func(ctx context.Context, h *harness.H, c int, r *prng.R, sc *scenario) (*aspenkit.ClusterTrace, string)
}

var scenarios = []scenario{
	{"late-feedback-silences-newer-op", runLateFeedback},
	{"restart-recovery-skips-op-below-local-high-water", runHighWater},
	{"restart-recovery-misses-op-at-or-above-high-water", runHighWater},
	{"restart-forgets-unpropagated-own-write", runRestartForgets},
	{"stale-lease-commit-overwrites-newer-op", runStaleLease},
	{"recovery-applies-older-op-over-newer", runRecoveryOrder},
	{"partition-heals-after-op-recovered", runPartitionHeals},
	{"late-feedback-silences-newer-op:fault-free", runOverwriteAfterConvergence},
	{"write-during-join-never-reaches-new-node:fault-free", runWriteDuringJoin},
}

const wd = 30 * time.Second // watchdog for every wait (expiry -> inconclusive)

func layerDirected(h *harness.H) {
	h.AddRule("directed: case = (schedule kind in {late feedback, restart below high-water, restart with unpropagated write, stale lease in open tx, recovery from two peers}, PRNG-chosen node count 3-4, roles, number of prior writes / held feedback messages, set-or-delete); distinct = kind + parameters; non-trivial = schedule was fully established (all waits satisfied) and the final quiescent checkpoint compared >= 2 (node,key) pairs")
	per := h.N(6, 150)
	type job struct{ c, s int }
	par := runtime.GOMAXPROCS(0) / 2
	if par < 1 {
		par = 1
	}
	if par > 8 {
		par = 8
	}
	jobs := make(chan job)
	var wg sync.WaitGroup
	for w := 0; w < par; w++ {
		wg.Add(1)
		go func() {
			defer wg.Done()
			for j := range jobs {
				sc := &scenarios[j.s]
				if noQuiesce.Load() >= 6 {
					h.Inconclusive("directed:skipped-after-repeated-no-quiescence")
					continue
				}
				r := h.Rand("directed", j.c)
				h.Eval()
				t, inc := sc.run(context.Background(), h, j.c, r, sc)
				if strings.HasPrefix(inc, "no-quiescence") {
					noQuiesce.Add(1)
				}
				if inc != "" {
					h.Inconclusive("directed:" + sc.name + ":" + strings.SplitN(inc, ": ", 2)[0])
					fmt.Printf("NOTE: directed case %d (%s) inconclusive: %s\n", j.c, sc.name, inc)
				}
				if t != nil {
					countNet(h, t, "directed_")
					h.Count("directed_runs_"+sc.name, 1)
				}
			}
		}()
	}
	// case index = variant*len(scenarios)+scenario, so a replay selects one schedule
	only := os.Getenv("VERIF_SCENARIO") // experiments: run one schedule kind only
	for v := 0; v < per; v++ {
		for s := range scenarios {
			if only != "" && scenarios[s].name != only {
				continue
			}
			c := v*len(scenarios) + s
			if h.Skip("directed", c) {
				continue
			}
			jobs <- job{c, s}
		}
	}
	close(jobs)
	wg.Wait()
}

func newTrace(cl *aspenkit.Cluster, keys ...aspenkit.KeySpec) *aspenkit.ClusterTrace {
	return &aspenkit.ClusterTrace{
		Spec:       aspenkit.ClusterSpec{Nodes: len(cl.Nodes), Keys: keys, Profile: "directed"},
		Hist:       aspenkit.History{},
		Cluster:    cl,
		DownRounds: map[int][]int{},
	}
}

func keyNames(t *aspenkit.ClusterTrace) []string {
	var ks []string
	for _, k := range t.Spec.Keys {
		ks = append(ks, k.Name)
	}
	return ks
}

func finish(h *harness.H, c int, sc *scenario, t *aspenkit.ClusterTrace, params string) string {
	ck := &c06Checker{h: h, layer: "directed", c: c, scenario: sc.name}
	if !t.QuiesceAndCheck(context.Background(), "final", 0, keyNames(t), ck.check) {
		return t.Inconclusive
	}
	if t.Inconclusive != "" {
		return t.Inconclusive
	}
	h.Count("directed_node_key_comparisons", ck.nChecked)
	h.Count("directed_stale_node_keys", ck.nStale)
	if ck.nChecked >= 2 {
		h.Distinct(sc.name + "|" + params)
	}
	return ""
}

// --- late feedback -----------------------------------------------------------------
// Leaseholder L writes k (v1). Feedback messages addressed to L are delayed (held). L keeps
// offering v1, its peers keep answering "already have it". Then L overwrites k (v2) while
// its operation messages are being lost, the delayed feedback for v1 arrives, and the
// network heals. Legal: delayed feedback + a burst of message loss.
func runLateFeedback(ctx context.Context, h *harness.H, c int, r *prng.R, sc *scenario) (*aspenkit.ClusterTrace, string) {
	nodes := r.Range(3, 4)
	L := r.Intn(nodes)
	extra := r.Range(0, 4) // feedback digests beyond the minimum that marks an op recovered
	del2 := r.Chance(1, 4)
	cl, err := aspenkit.OpenCluster(ctx, r, aspenkit.ClusterParams{Nodes: nodes})
	if err != nil {
		return nil, "open:" + err.Error()
	}
	defer func() { _ = cl.Close() }()
	ks := aspenkit.KeySpec{Name: "k", Writer: L, Leader: L}
	t := newTrace(cl, ks)
	la := cl.Nodes[L].Addr
	cl.Net.HoldFeedbackTo(la)
	w1 := cl.DoWrite(ctx, t.Hist, ks, false, 0)
	if !w1.OK {
		return t, "write1:" + w1.Err
	}
	if !cl.WaitAll(ctx, "k", wd, func(s aspenkit.KeyState) bool { return s.Present && s.Value == w1.Value }) {
		return t, "v1-did-not-spread"
	}
	st, _ := aspenkit.ReadKey(ctx, cl.Nodes[L].Eng, "k")
	need := recoveryThreshold + 2 + extra
	deadline := time.Now().Add(wd)
	for cl.Net.HeldFeedbackCount(la, "k", st.Version) < need {
		if time.Now().After(deadline) {
			return t, "feedback-did-not-accumulate"
		}
		time.Sleep(cl.P.KVInterval)
	}
	var peers []int
	for i := range cl.Nodes {
		if i != L {
			peers = append(peers, i)
		}
	}
	if !cl.WaitNoInfected(ctx, peers, wd) {
		return t, "peers-still-infected"
	}
	cl.Net.MuteTxFrom(la, true)
	w2 := cl.DoWrite(ctx, t.Hist, ks, del2, 0)
	if !w2.OK {
		return t, "write2:" + w2.Err
	}
	released := cl.Net.ReleaseFeedbackTo(la)
	h.Count("directed_late_feedback_msgs_released", released)
	time.Sleep(20 * cl.P.KVInterval) // let them travel through L's pipeline; not a deciding wait
	cl.Net.MuteTxFrom(la, false)
	return t, finish(h, c, sc, t, fmt.Sprintf("n%d L%d extra%d del%v", nodes, L, extra, del2))
}

// --- restart below the high-water mark ----------------------------------------------
// X has written m ops of its own (its digests reach version m). While X is down, Y, whose
// counter is lower, writes a key; the write spreads and gossip quiesces among the others.
// X restarts on its engine: start-up recovery.
func runHighWater(ctx context.Context, h *harness.H, c int, r *prng.R, sc *scenario) (*aspenkit.ClusterTrace, string) {
	nodes := r.Range(3, 4)
	X := r.Intn(nodes)
	Y := (X + 1 + r.Intn(nodes-1)) % nodes
	m := r.Range(3, 8)
	y0 := r.Range(0, m-2) // Y's write while X is down gets version y0+1 < m = X's high-water
	if sc.name == "restart-recovery-misses-op-at-or-above-high-water" {
		// control: the version written while X is down is equal to or above X's mark, so
		// the recovery request covers it
		y0 = m - 1 + r.Range(0, 2)
	}
	cl, err := aspenkit.OpenCluster(ctx, r, aspenkit.ClusterParams{Nodes: nodes})
	if err != nil {
		return nil, "open:" + err.Error()
	}
	defer func() { _ = cl.Close() }()
	kx := aspenkit.KeySpec{Name: "kx", Writer: X, Leader: X}
	ky0 := aspenkit.KeySpec{Name: "ky0", Writer: Y, Leader: Y}
	ky := aspenkit.KeySpec{Name: "ky", Writer: Y, Leader: Y}
	t := newTrace(cl, kx, ky0, ky)
	for i := 0; i < m; i++ {
		if w := cl.DoWrite(ctx, t.Hist, kx, false, 0); !w.OK {
			return t, "write:" + w.Err
		}
	}
	for i := 0; i < y0; i++ {
		if w := cl.DoWrite(ctx, t.Hist, ky0, false, 0); !w.OK {
			return t, "write:" + w.Err
		}
	}
	if err := cl.WaitQuiesced(ctx, 8, wd); err != nil {
		return t, "no-quiescence-1"
	}
	if err := cl.Stop(X); err != nil {
		return t, "stop:" + err.Error()
	}
	t.DownRounds[X] = []int{1}
	if w := cl.DoWrite(ctx, t.Hist, ky, false, 1); !w.OK {
		return t, "write:" + w.Err
	}
	if err := cl.WaitQuiesced(ctx, 8, wd); err != nil {
		return t, "no-quiescence-2"
	}
	if err := cl.Restart(ctx, X); err != nil {
		return t, "restart:" + err.Error()
	}
	return t, finish(h, c, sc, t, fmt.Sprintf("n%d X%d Y%d m%d y%d", nodes, X, Y, m, y0))
}

// --- restart with a write that had not left the node ---------------------------------
// X's operation messages are being lost when its client writes k (acknowledged); X is
// closed and reopened; the network is healthy afterwards.
func runRestartForgets(ctx context.Context, h *harness.H, c int, r *prng.R, sc *scenario) (*aspenkit.ClusterTrace, string) {
	nodes := r.Range(3, 4)
	X := r.Intn(nodes)
	pre := r.Range(0, 3)
	del := pre > 0 && r.Chance(1, 4)
	cl, err := aspenkit.OpenCluster(ctx, r, aspenkit.ClusterParams{Nodes: nodes})
	if err != nil {
		return nil, "open:" + err.Error()
	}
	defer func() { _ = cl.Close() }()
	kx := aspenkit.KeySpec{Name: "kx", Writer: X, Leader: X}
	t := newTrace(cl, kx)
	for i := 0; i < pre; i++ {
		if w := cl.DoWrite(ctx, t.Hist, kx, false, 0); !w.OK {
			return t, "write:" + w.Err
		}
	}
	if err := cl.WaitQuiesced(ctx, 8, wd); err != nil {
		return t, "no-quiescence-1"
	}
	cl.Net.MuteTxFrom(cl.Nodes[X].Addr, true)
	if w := cl.DoWrite(ctx, t.Hist, kx, del, 1); !w.OK {
		return t, "write:" + w.Err
	}
	if err := cl.Stop(X); err != nil {
		return t, "stop:" + err.Error()
	}
	cl.Net.MuteTxFrom(cl.Nodes[X].Addr, false)
	if err := cl.Restart(ctx, X); err != nil {
		return t, "restart:" + err.Error()
	}
	return t, finish(h, c, sc, t, fmt.Sprintf("n%d X%d pre%d del%v", nodes, X, pre, del))
}

// --- stale lease decision in an open transaction --------------------------------------
// A opens a transaction and sets the (new) key k: the lease allocator finds no digest and
// makes A the leaseholder. Before A commits, B creates k as well (B's counter is ahead of
// A's) and that write reaches every node, A included. A commits. Every node has now
// received both operations.
func runStaleLease(ctx context.Context, h *harness.H, c int, r *prng.R, sc *scenario) (*aspenkit.ClusterTrace, string) {
	nodes := r.Range(3, 4)
	A := r.Intn(nodes)
	B := (A + 1 + r.Intn(nodes-1)) % nodes
	p := r.Range(1, 5)
	cl, err := aspenkit.OpenCluster(ctx, r, aspenkit.ClusterParams{Nodes: nodes})
	if err != nil {
		return nil, "open:" + err.Error()
	}
	defer func() { _ = cl.Close() }()
	kb := aspenkit.KeySpec{Name: "kb", Writer: B, Leader: B}
	k := aspenkit.KeySpec{Name: "k", Writer: B, Leader: B}
	t := newTrace(cl, kb, k)
	for i := 0; i < p; i++ {
		if w := cl.DoWrite(ctx, t.Hist, kb, false, 0); !w.OK {
			return t, "write:" + w.Err
		}
	}
	tx := cl.Nodes[A].DB.OpenTx()
	defer func() { _ = tx.Close() }()
	if err := tx.Set(ctx, []byte("k"), []byte("from-A")); err != nil {
		return t, "tx-set:" + err.Error()
	}
	wb := cl.DoWrite(ctx, t.Hist, k, false, 0)
	if !wb.OK {
		return t, "write:" + wb.Err
	}
	if err := cl.WaitQuiesced(ctx, 8, wd); err != nil {
		return t, "no-quiescence-1"
	}
	before, _ := aspenkit.ReadKey(ctx, cl.Nodes[A].Eng, "k")
	if !before.Present || before.Value != wb.Value {
		return t, "B's-write-did-not-reach-A"
	}
	if err := tx.Commit(ctx); err != nil {
		return t, "tx-commit:" + err.Error()
	}
	after, _ := aspenkit.ReadKey(ctx, cl.Nodes[A].Eng, "k")
	h.Count("directed_node_key_comparisons", 1)
	if before.HasDigest && after.HasDigest && aspenkit.Newer(before.Version, before.Lease, after.Version, after.Lease) {
		why := fmt.Sprintf("node %d held %s for k and replaced it by the older %s when its open transaction committed (lease decided at tx.Set time, local persist unconditional)", A+1, before, after)
		h.Violation("directed", c, "c06:"+sc.name+":stored-op-replaced-by-older", why, clusterWitness{Why: why, Node: A, Key: "k", Trace: t, Diagnosis: map[string]any{"before": before, "after": after}})
	}
	// from here on the usual oracle: all nodes received both ops -> identical state. The
	// client history of k has two writers; the rule's winner is whichever op is maximal,
	// so only equality with the reference node is demanded (B's write stays acceptable
	// for B only if it is the maximal one).
	if aspenkit.Newer(after.Version, after.Lease, before.Version, before.Lease) {
		t.Hist["k"] = append(t.Hist["k"], aspenkit.Write{Key: "k", Seq: 1, Value: "from-A", OK: true})
	}
	return t, finish(h, c, sc, t, fmt.Sprintf("n%d A%d B%d p%d", nodes, A, B, p))
}

// --- start-up recovery from two peers holding different versions ----------------------
// X is down. Y (leaseholder of k) has v3, Z still has v2 because Y's operation messages
// are being lost. X restarts and pulls from both. X has then received v2 and v3.
func runRecoveryOrder(ctx context.Context, h *harness.H, c int, r *prng.R, sc *scenario) (*aspenkit.ClusterTrace, string) {
	nodes := 3
	X := r.Intn(nodes)
	Y := (X + 1 + r.Intn(nodes-1)) % nodes
	cl, err := aspenkit.OpenCluster(ctx, r, aspenkit.ClusterParams{Nodes: nodes})
	if err != nil {
		return nil, "open:" + err.Error()
	}
	defer func() { _ = cl.Close() }()
	k := aspenkit.KeySpec{Name: "k", Writer: Y, Leader: Y}
	t := newTrace(cl, k)
	if w := cl.DoWrite(ctx, t.Hist, k, false, 0); !w.OK {
		return t, "write:" + w.Err
	}
	if err := cl.WaitQuiesced(ctx, 8, wd); err != nil {
		return t, "no-quiescence-1"
	}
	if err := cl.Stop(X); err != nil {
		return t, "stop:" + err.Error()
	}
	if w := cl.DoWrite(ctx, t.Hist, k, false, 1); !w.OK {
		return t, "write:" + w.Err
	}
	if err := cl.WaitQuiesced(ctx, 8, wd); err != nil {
		return t, "no-quiescence-2"
	}
	cl.Net.MuteTxFrom(cl.Nodes[Y].Addr, true)
	w3 := cl.DoWrite(ctx, t.Hist, k, r.Chance(1, 4), 1)
	if !w3.OK {
		return t, "write:" + w3.Err
	}
	yState, _ := aspenkit.ReadKey(ctx, cl.Nodes[Y].Eng, "k")
	if err := cl.Restart(ctx, X); err != nil {
		return t, "restart:" + err.Error()
	}
	xState, _ := aspenkit.ReadKey(ctx, cl.Nodes[X].Eng, "k")
	h.Count("directed_node_key_comparisons", 1)
	if xState != yState {
		why := fmt.Sprintf("node %d pulled k from node %d (%s) and from the third node (one version older) during start-up recovery and ended with %s: the older recovered operation replaced the newer one", X+1, Y+1, yState, xState)
		h.Violation("directed", c, "c06:"+sc.name, why, clusterWitness{Why: why, Node: X, Key: "k", Trace: t, Diagnosis: map[string]any{"restarted_node_holds": xState, "leaseholder_holds": yState}})
	}
	cl.Net.MuteTxFrom(cl.Nodes[Y].Addr, false)
	ck := &c06Checker{h: h, layer: "directed", c: c, scenario: sc.name + ":not-healed"}
	if !t.QuiesceAndCheck(ctx, "final", 0, keyNames(t), ck.check) {
		return t, t.Inconclusive
	}
	h.Count("directed_node_key_comparisons", ck.nChecked)
	if ck.nChecked >= 2 {
		h.Distinct(fmt.Sprintf("%s|X%d Y%d del%v", sc.name, X, Y, w3.Del))
	}
	return t, t.Inconclusive
}

// --- a partition that heals after the operation has been marked recovered ---------------
// All operation messages from and to node P are lost for a while (P is partitioned on the
// operation channel only; membership gossip continues). L writes k; the write spreads
// among the others and gossip quiesces there (everybody who has it has been told often
// enough that the others have it). The partition heals.
func runPartitionHeals(ctx context.Context, h *harness.H, c int, r *prng.R, sc *scenario) (*aspenkit.ClusterTrace, string) {
	nodes := r.Range(3, 4)
	P := r.Intn(nodes)
	L := (P + 1 + r.Intn(nodes-1)) % nodes
	pre := r.Range(0, 2)
	cl, err := aspenkit.OpenCluster(ctx, r, aspenkit.ClusterParams{Nodes: nodes})
	if err != nil {
		return nil, "open:" + err.Error()
	}
	defer func() { _ = cl.Close() }()
	k := aspenkit.KeySpec{Name: "k", Writer: L, Leader: L}
	t := newTrace(cl, k)
	for i := 0; i < pre; i++ {
		if w := cl.DoWrite(ctx, t.Hist, k, false, 0); !w.OK {
			return t, "write:" + w.Err
		}
	}
	if err := cl.WaitQuiesced(ctx, 8, wd); err != nil {
		return t, "no-quiescence-1"
	}
	cl.Net.MuteTxFrom(cl.Nodes[P].Addr, true)
	if w := cl.DoWrite(ctx, t.Hist, k, pre > 0 && r.Chance(1, 4), 1); !w.OK {
		return t, "write:" + w.Err
	}
	if err := cl.WaitQuiesced(ctx, 8, wd); err != nil {
		return t, "no-quiescence-2"
	}
	cl.Net.MuteTxFrom(cl.Nodes[P].Addr, false)
	return t, finish(h, c, sc, t, fmt.Sprintf("n%d P%d L%d pre%d", nodes, P, L, pre))
}

// --- fault-free: overwrite a key shortly after its previous value has converged ----------
// No fault is injected. For several fresh keys: the leaseholder sets k, the client waits
// until every node shows the value, waits 0-12 gossip intervals more, and writes k again.
func runOverwriteAfterConvergence(ctx context.Context, h *harness.H, c int, r *prng.R, sc *scenario) (*aspenkit.ClusterTrace, string) {
	nodes := r.Range(3, 4)
	trials := 8
	cl, err := aspenkit.OpenCluster(ctx, r, aspenkit.ClusterParams{Nodes: nodes})
	if err != nil {
		return nil, "open:" + err.Error()
	}
	defer func() { _ = cl.Close() }()
	var keys []aspenkit.KeySpec
	for i := 0; i < trials; i++ {
		L := r.Intn(nodes)
		keys = append(keys, aspenkit.KeySpec{Name: fmt.Sprintf("k%d", i), Writer: L, Leader: L})
	}
	t := newTrace(cl, keys...)
	for _, ks := range keys {
		w1 := cl.DoWrite(ctx, t.Hist, ks, false, 0)
		if !w1.OK {
			return t, "write:" + w1.Err
		}
		if !cl.WaitAll(ctx, ks.Name, 5*time.Second, func(s aspenkit.KeyState) bool { return s.Present && s.Value == w1.Value }) {
			// the first value never reached some node: let the oracle look at it after
			// observed quiescence instead of writing on
			break
		}
		time.Sleep(time.Duration(r.I64n(int64(12*cl.P.KVInterval) + 1)))
		if w := cl.DoWrite(ctx, t.Hist, ks, r.Chance(1, 4), 0); !w.OK {
			return t, "write:" + w.Err
		}
	}
	var ls string
	for _, ks := range keys {
		ls += fmt.Sprint(ks.Leader)
	}
	return t, finish(h, c, sc, t, fmt.Sprintf("n%d L%s", nodes, ls))
}

// --- fault-free: writes racing a node join -------------------------------------------
// No fault is injected. A 2-3 node cluster; node 1's client writes a few keys while a new
// node is joining (pledge, first membership gossip, start-up recovery).
func runWriteDuringJoin(ctx context.Context, h *harness.H, c int, r *prng.R, sc *scenario) (*aspenkit.ClusterTrace, string) {
	nodes := r.Range(2, 3)
	W := r.Intn(nodes)
	nk := r.Range(2, 5)
	ci := prng.Pick(r, []time.Duration{10, 30, 60}) * time.Millisecond // membership gossip interval
	cl, err := aspenkit.OpenCluster(ctx, r, aspenkit.ClusterParams{Nodes: nodes, ClusterInterval: ci})
	if err != nil {
		return nil, "open:" + err.Error()
	}
	defer func() { _ = cl.Close() }()
	var keys []aspenkit.KeySpec
	for i := 0; i < nk; i++ {
		keys = append(keys, aspenkit.KeySpec{Name: fmt.Sprintf("k%d", i), Writer: W, Leader: W})
	}
	t := newTrace(cl, keys...)
	gap := time.Duration(r.I64n(int64(4*cl.P.KVInterval) + 1))
	lead := time.Duration(r.I64n(int64(10*cl.P.KVInterval) + 1))
	done := make(chan string, 1)
	wn, hist := cl.Nodes[W], t.Hist
	go func() {
		// the writer goroutine owns hist until it reports on done
		for _, ks := range keys {
			wr := aspenkit.Write{Key: ks.Name, Value: ks.Name + "#0", OK: true}
			octx, cancel := context.WithTimeout(ctx, 20*time.Second)
			err := wn.DB.Set(octx, []byte(ks.Name), []byte(wr.Value))
			cancel()
			if err != nil {
				done <- "write:" + err.Error()
				return
			}
			hist[ks.Name] = append(hist[ks.Name], wr)
			time.Sleep(gap)
		}
		done <- ""
	}()
	time.Sleep(lead)
	n, err := cl.AddNode(ctx, nodes)
	if msg := <-done; msg != "" {
		return t, msg
	}
	if err != nil {
		return t, "join:" + err.Error()
	}
	cl.Attach(n)
	t.Spec.Nodes = len(cl.Nodes)
	if !cl.WaitMembership(wd) {
		return t, "membership-did-not-converge"
	}
	return t, finish(h, c, sc, t, fmt.Sprintf("n%d W%d k%d ci%s gap%s lead%s", nodes, W, nk, ci, gap.Round(time.Millisecond), lead.Round(time.Millisecond)))
}
