#!/usr/bin/env bash
# usage: sens/run.sh <scratch-dir> <diff-file> <Cnn> [layers]
# applies the mutation to the scratch worktree, runs the quick check, prints the violation
# signatures, and reverts the mutation.
set -u
d=$1; diff=$2; id=$3; layers=${4:-}
cd "$d" && patch -p1 -s < "$diff" || { echo "patch failed"; exit 2; }
cd /verif
alt=".build/alt-$(echo "$d" | md5sum | cut -c1-8)"
VERIF_LAYERS=$layers VERIF_REPO=$d ./check "$id" | grep -E "BUILD|HARNESS|SUMMARY" | cut -c1-140
jq -c '.coverage.violation_signatures, .coverage.inconclusive_by_reason' "$alt/evidence/$id.json"
cd "$d" && patch -p1 -R -s < "$diff"
git -C "$d" status --short | head
