// C06 — Aspen replicas converge: same operations, any order, same state.
package main

import "verif/lib/harness"

func main() {
	harness.Main("C06", "fault_enumeration",
		harness.Layer{Name: "ingress", Run: layerIngress},
		harness.Layer{Name: "directed", Run: layerDirected},
		harness.Layer{Name: "cluster", Run: layerCluster},
	)
}
