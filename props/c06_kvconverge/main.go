// C06 — Aspen replicas converge: same operations, any order, same state.
package main

import "verif/lib/harness"

func assumptions(h *harness.H) {
	h.Assume("'gossip has quiesced' is OBSERVED, not timed: every up node answers an empty operation message (the real handler returns its infected set) with no operations on 8 consecutive probes 4 gossip intervals apart and no operation-carrying message is delivered in between; a failing checkpoint is re-taken after 50 such probes; watchdog 45 s -> inconclusive")
	h.Assume("clusters run on aspen/transport/mock (Go values are passed, nothing is serialised) wrapped by a client-side fault decorator; KV gossip interval 5 ms, membership gossip 10 ms; RecoveryThreshold is the default 5 (not settable through aspen.Open)")
	h.Assume("a restarting node accepts no inbound message until aspen.Open has returned (with the real transports Serve() follows kv.Open); only one node is down at a time (kv.Open fails while any known peer is unreachable)")
	h.Assume("the signature of a stale (node,key) pair in the random cluster layer is INFERRED from what the transport decorator saw (feedback digests delivered per holder, high-water mark at restart); the verdict itself is the engine-state comparison")
	h.SetExtra("recovery_threshold", recoveryThreshold)
}

func main() {
	harness.Main("C06", "fault_enumeration",
		harness.Layer{Name: "assumptions", Run: assumptions},
		harness.Layer{Name: "ingress", Run: layerIngress},
		harness.Layer{Name: "store", Run: layerStore},
		harness.Layer{Name: "directed", Run: layerDirected},
		harness.Layer{Name: "cluster", Run: layerCluster},
	)
}
