package main

// Layer "cluster": 3-4 real aspen.DBs on the in-memory transport wrapped by faultnet.
// Clients (one writer per key, unique values) write in rounds under injected drop / dup /
// delay faults; faults are switched off; quiescence is OBSERVED (every node answers an
// empty operation message with an empty infected set, repeatedly, and no
// operation-carrying message is delivered in between); then the oracle reads every node's
// engine. In a third of the runs a node is stopped for a round and restarted on its
// engine (start-up recovery).
//
// Oracle (statement, last sentence): after quiescence on a connected cluster every node
// holds the leaseholder's latest write for each key: (1) the leaseholder's engine holds
// the client's last acknowledged write (or a later one whose acknowledgement was lost by
// an injected fault), (2) every node holds exactly what the leaseholder holds (value,
// deletion and digest).

import (
	"context"
	"fmt"
	"runtime"
	"strings"
	"sync"
	"sync/atomic"

	"verif/lib/aspenkit"
	"verif/lib/harness"
)

const recoveryThreshold = 5 // kv.DefaultConfig.RecoveryThreshold; not settable through aspen.Open

type clusterWitness struct {
	Why        string                 `json:"why"`
	Node       int                    `json:"node"`
	Key        string                 `json:"key"`
	Diagnosis  map[string]any         `json:"diagnosis,omitempty"`
	Trace      *aspenkit.ClusterTrace `json:"trace"`
	HighWaters map[int][]int64        `json:"high_water_at_restart,omitempty"`
}

func matchesWrite(ks aspenkit.KeyState, w aspenkit.Write) bool {
	if w.Del {
		return ks.HasDigest && ks.DigestDel && !ks.Present
	}
	return ks.HasDigest && !ks.DigestDel && ks.Present && ks.Value == w.Value
}

// acceptable returns the client writes the leaseholder may legitimately hold as latest:
// the last acknowledged one, or any later unacknowledged one (it may have been applied).
func acceptable(h []aspenkit.Write) (ws []aspenkit.Write, noneOK bool) {
	last := -1
	for i, w := range h {
		if w.OK {
			last = i
		}
	}
	if last < 0 {
		noneOK = true
	} else {
		ws = append(ws, h[last])
	}
	for i := last + 1; i < len(h); i++ {
		ws = append(ws, h[i])
	}
	return
}

type c06Checker struct {
	h     *harness.H
	layer string
	c     int
	// classify lets directed scenarios name the schedule they built
	scenario string
	nChecked int
	nStale   int
}

func (k *c06Checker) check(t *aspenkit.ClusterTrace, cp *aspenkit.Checkpoint, report bool) bool {
	if cp.NotQuiescent {
		return true // the statement speaks about quiesced gossip only
	}
	ok := true
	cl := t.Cluster
	viol := func(node int, key, sig, why string, diag map[string]any) {
		ok = false
		if !report {
			return
		}
		hw := map[int][]int64{}
		for i, n := range cl.Nodes {
			if len(n.HighWater) > 0 {
				hw[i] = n.HighWater
			}
		}
		k.h.Violation(k.layer, k.c, sig, why, clusterWitness{Why: why, Node: node, Key: key, Diagnosis: diag, Trace: t, HighWaters: hw})
	}
	for _, ks := range t.Spec.Keys {
		hist := t.Hist[ks.Name]
		if len(hist) == 0 {
			continue
		}
		acc, noneOK := acceptable(hist)
		// reference = leaseholder's engine if it is up, else the first up node
		ref := ks.Leader
		if !cp.Up[ref] {
			ref = -1
			for i, up := range cp.Up {
				if up {
					ref = i
					break
				}
			}
		}
		if ref < 0 {
			continue
		}
		rs := cp.State[ref][ks.Name]
		if cp.Up[ks.Leader] {
			k.nChecked++
			good := noneOK && !rs.HasDigest && !rs.Present
			for _, w := range acc {
				if matchesWrite(rs, w) {
					good = true
				}
			}
			if !good {
				viol(ks.Leader, ks.Name, "c06:cluster:leaseholder-does-not-hold-latest-write",
					fmt.Sprintf("%s: leaseholder node %d holds %s for %s; client's last acknowledged write is %+v (%d candidates)", cp.Phase, ks.Leader+1, rs, ks.Name, acc[0], len(acc)), nil)
			}
		}
		for i, up := range cp.Up {
			if !up || i == ref {
				continue
			}
			k.nChecked++
			ns := cp.State[i][ks.Name]
			if ns == rs {
				continue
			}
			k.nStale++
			sig, diag := k.classify(t, cp, ks, ref, i, rs, ns)
			viol(i, ks.Name, sig, fmt.Sprintf("%s: node %d holds %s for %s but node %d (leaseholder %d) holds %s; gossip had quiesced (no node has an infected op)", cp.Phase, i+1, ns, ks.Name, ref+1, ks.Leader+1, rs), diag)
		}
	}
	for i, inf := range cp.Infected {
		if len(inf) > 0 {
			ok = false // not actually quiescent at the instant of the snapshot: retake
			if report {
				t.Inconclusive = fmt.Sprintf("node-infected-at-checkpoint:%d", i+1)
			}
		}
	}
	return ok
}

// classify names the mechanism by which node `stale` failed to receive what `ref` holds,
// from what the transport decorator observed. It never decides whether there is a
// violation (the state comparison did), only which signature it gets. Directed schedules
// get their own name when the inferred mechanism is the one they set up.
func (k *c06Checker) classify(t *aspenkit.ClusterTrace, cp *aspenkit.Checkpoint, ks aspenkit.KeySpec, ref, stale int, rs, ns aspenkit.KeyState) (string, map[string]any) {
	root, diag := k.infer(t, cp, ks, ref, stale, rs, ns)
	diag["inferred_mechanism"] = root
	if k.scenario != "" {
		for _, r := range scenarioRoots[k.scenario] {
			if r == root {
				return "c06:" + k.scenario, diag
			}
		}
	}
	return "c06:" + root + ":inferred", diag
}

// scenarioRoots: the inferred mechanisms a directed schedule is expected to produce.
var scenarioRoots = map[string][]string{
	"late-feedback-silences-newer-op":                   {"late-feedback-silences-newer-op"},
	"restart-recovery-skips-op-below-local-high-water":  {"restart-recovery-skips-op-below-local-high-water"},
	"restart-forgets-unpropagated-own-write":            {"restart-forgets-unpropagated-own-write"},
	"restart-recovery-misses-op-at-or-above-high-water": {"restart-recovery-misses-op-at-or-above-high-water"},
	"stale-lease-commit-overwrites-newer-op":            {"node-holds-own-led-op-against-other-leaseholder"},
	"partition-heals-after-op-recovered":                {"gossip-recovered-everywhere-before-reaching-node"},
	"late-feedback-silences-newer-op:fault-free":        {"late-feedback-silences-newer-op"},
	// with only the writer holding the op, "recovered everywhere" and "silenced" both
	// mean the same thing: the writer stopped offering the op before it knew the new node
	"write-during-join-never-reaches-new-node:fault-free": {"gossip-recovered-everywhere-before-reaching-node", "late-feedback-silences-newer-op"},
}

func (k *c06Checker) infer(t *aspenkit.ClusterTrace, cp *aspenkit.Checkpoint, ks aspenkit.KeySpec, ref, stale int, rs, ns aspenkit.KeyState) (string, map[string]any) {
	cl := t.Cluster
	diag := map[string]any{}
	if rs.HasDigest && ns.HasDigest && rs.Version == ns.Version && rs.Lease == ns.Lease {
		return "same-digest-different-value", diag
	}
	refNewer := rs.HasDigest && (!ns.HasDigest || aspenkit.Newer(rs.Version, rs.Lease, ns.Version, ns.Lease))
	if !refNewer {
		return "node-ahead-of-leaseholder", diag
	}
	sn := cl.Nodes[stale]
	if ns.HasDigest && ns.Lease == sn.Key && rs.Lease != ns.Lease {
		return "node-holds-own-led-op-against-other-leaseholder", diag
	}
	// holders of the newer op and the feedback each of them got for it
	minFb := -1
	var holders []int
	for i, up := range cp.Up {
		if up && cp.State[i][ks.Name] == rs {
			holders = append(holders, i+1)
			fb := cl.Net.FeedbackDelivered(cl.Nodes[i].Addr, ks.Name, rs.Version)
			diag[fmt.Sprintf("feedback_for_latest_at_node%d", i+1)] = fb
			diag[fmt.Sprintf("times_node%d_offered_latest", i+1)] = cl.Net.Gossiped(cl.Nodes[i].Addr, ks.Name, rs.Version)
			// a holder that restarted lost its in-memory infected set: its silence is
			// explained by the restart, not by feedback
			if cl.Nodes[i].Epoch == 0 && (minFb < 0 || fb < minFb) {
				minFb = fb
			}
		}
	}
	diag["holders"] = holders
	diag["times_latest_handed_to_stale_node"] = cl.Net.Received(sn.Addr, ks.Name, rs.Version)
	if sn.Epoch > 0 && len(sn.HighWater) > 0 {
		hw := sn.HighWater[len(sn.HighWater)-1]
		diag["stale_node_high_water_at_restart"] = hw
		diag["latest_version"] = rs.Version
		// was the missing write issued while the stale node was stopped?
		whileDown := false
		for _, w := range t.Hist[ks.Name] {
			if matchesWrite(rs, w) {
				for _, dr := range t.DownRounds[stale] {
					if dr == w.Round {
						whileDown = true
					}
				}
			}
		}
		diag["latest_written_while_stale_node_was_down"] = whileDown
		if whileDown && rs.Version < hw {
			// the node restarted with a local high-water mark above the version it is
			// missing, i.e. its start-up recovery asked its peers to skip it
			return "restart-recovery-skips-op-below-local-high-water", diag
		}
		if whileDown {
			// the recovery request covered the missing version. If a peer still held the
			// older operation the restarted node ended up with, the node pulled both and
			// kept the older one; otherwise it never got the newer one.
			for i, up := range cp.Up {
				if up && i != stale && ns.HasDigest && cp.State[i][ks.Name] == ns {
					return "recovery-applies-older-op-over-newer", diag
				}
			}
			return "restart-recovery-misses-op-at-or-above-high-water", diag
		}
	}
	if cl.Nodes[ref].Epoch > 0 && cl.Net.FeedbackDelivered(cl.Nodes[ref].Addr, ks.Name, rs.Version) <= recoveryThreshold+1 {
		return "restart-forgets-unpropagated-own-write", diag
	}
	if minFb >= 0 && minFb <= recoveryThreshold+1 {
		// a holder stopped gossiping the op although fewer feedback digests for it than
		// the recovery threshold requires ever reached it
		return "late-feedback-silences-newer-op", diag
	}
	return "gossip-recovered-everywhere-before-reaching-node", diag
}

func layerCluster(h *harness.H) {
	h.AddRule("cluster: case = (3-4 nodes, 3-6 keys each with a writer node and a leaseholder node, fault profile, optional stop/restart of one node) run for 2-3 rounds of 4-9 unique-valued set/delete ops per key; distinct = hash of spec + per-key issue history; non-trivial = at least 2 quiescent checkpoints reached with >= 10 (node,key) comparisons")
	n := h.N(100, 3000)
	par := runtime.GOMAXPROCS(0) / 2
	if par < 1 {
		par = 1
	}
	if par > 8 {
		par = 8
	}
	var wg sync.WaitGroup
	cases := make(chan int)
	for w := 0; w < par; w++ {
		wg.Add(1)
		go func() {
			defer wg.Done()
			for c := range cases {
				clusterCase(h, c)
			}
		}()
	}
	for c := 0; c < n; c++ {
		if h.Skip("cluster", c) {
			continue
		}
		cases <- c
	}
	close(cases)
	wg.Wait()
}

func histShape(t *aspenkit.ClusterTrace) string {
	var sb strings.Builder
	fmt.Fprintf(&sb, "%+v|", t.Spec)
	for _, k := range t.Spec.Keys {
		for _, w := range t.Hist[k.Name] {
			fmt.Fprintf(&sb, "%s:%v:%v,", k.Name, w.Del, w.OK)
		}
	}
	return sb.String()
}

func countNet(h *harness.H, t *aspenkit.ClusterTrace, prefix string) {
	sent, delivered, withOps, inj := t.Cluster.Net.Counters()
	for ch := 0; ch < aspenkit.NChan; ch++ {
		h.Count(prefix+"msgs_sent_"+aspenkit.ChanName(ch), int(sent[ch]))
		h.Count(prefix+"msgs_delivered_"+aspenkit.ChanName(ch), int(delivered[ch]))
	}
	h.Count(prefix+"op_msgs_carrying_ops", int(withOps))
	for k, v := range inj {
		h.Count(prefix+"fault_"+strings.ReplaceAll(k, "/", "_"), int(v))
	}
}

// noQuiesce counts cases whose gossip never quiesced. When that keeps happening the code
// under test gossips forever (e.g. it re-accepts what it already has); the remaining cases
// would each only burn the watchdog, so they are skipped and counted as inconclusive.
var noQuiesce atomic.Int64

func clusterCase(h *harness.H, c int) {
	if noQuiesce.Load() >= 6 {
		h.Inconclusive("cluster:skipped-after-repeated-no-quiescence")
		return
	}
	ctx := context.Background()
	r := h.Rand("cluster", c)
	h.Eval()
	spec := aspenkit.GenClusterSpec(r)
	ck := &c06Checker{h: h, layer: "cluster", c: c}
	t, err := aspenkit.RunClusterCase(ctx, r, spec, ck.check)
	if err != nil {
		h.Inconclusive("cluster-open-error")
		fmt.Printf("NOTE: cluster case %d: %v\n", c, err)
		return
	}
	if t.Inconclusive != "" {
		if strings.HasPrefix(t.Inconclusive, "no-quiescence") {
			noQuiesce.Add(1)
		}
		h.Inconclusive("cluster:" + strings.SplitN(t.Inconclusive, ":", 2)[0])
		fmt.Printf("NOTE: cluster case %d inconclusive: %s\n", c, t.Inconclusive)
	}
	writes, unacked := 0, 0
	for _, hs := range t.Hist {
		for _, w := range hs {
			writes++
			if !w.OK {
				unacked++
			}
		}
	}
	h.Count("cluster_client_writes", writes)
	h.Count("cluster_client_writes_unacknowledged", unacked)
	h.Count("cluster_quiescent_checkpoints", len(t.Checkpoints))
	h.Count("cluster_multi_op_transactions", t.MultiOpTxs)
	h.Count("cluster_node_key_comparisons", ck.nChecked)
	h.Count("cluster_stale_node_keys", ck.nStale)
	if spec.Restart {
		h.Count("cluster_runs_with_restart", 1)
	}
	h.Seen("fault_profiles", spec.Profile)
	countNet(h, t, "cluster_")
	if len(t.Checkpoints) >= 2 && ck.nChecked >= 10 {
		h.Distinct(histShape(t))
	}
	if c < 2 {
		h.Sample(map[string]any{"layer": "cluster", "case": c, "spec": spec, "history_key0": t.Hist[spec.Keys[0].Name], "checkpoints": len(t.Checkpoints)})
	}
}
