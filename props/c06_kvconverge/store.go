package main

// Layer "store": the SIR gossip store and the feedback (recovery) transform driven
// synchronously through the verif hook, without timers or transports. Generated sequences
// of "operation v of key k was persisted (local write or accepted gossip)" and "a peer
// reported (k, v') redundant" events, v' <= current version, in arbitrary interleavings —
// exactly what late or duplicated feedback produces.
//
// Invariant (the mechanism the last sentence of the statement rests on: an operation is
// re-gossiped until feedback marks IT recovered): the newest operation of a key is still
// offered by the store as long as at most RecoveryThreshold feedback digests for that very
// (key, version) have been processed. A violation here is the component-level, timing-free
// reproduction of the cluster-level divergence reported by the directed layer.

import (
	"context"
	"fmt"

	"github.com/synnaxlabs/aspen/verifx"
	"github.com/synnaxlabs/x/change"
	xkv "github.com/synnaxlabs/x/kv"
	"github.com/synnaxlabs/x/version"

	"verif/lib/harness"
	"verif/lib/prng"
)

type storeEvent struct {
	Kind    string `json:"kind"` // "persisted" | "feedback"
	Key     string `json:"key"`
	Version int64  `json:"version"`
}

func layerStore(h *harness.H) {
	h.AddRule("store: case = sequence of 8-40 persisted/feedback events over 1-3 keys with feedback for current and older versions; distinct = the sequence; non-trivial = some feedback for an older version arrived after a newer version was stored and some operation was legitimately recovered")
	n := h.N(2000, 100000)
	for c := 0; c < n; c++ {
		if h.Skip("store", c) {
			continue
		}
		r := h.Rand("store", c)
		h.Eval()
		storeCase(h, c, r)
	}
}

func storeCase(h *harness.H, c int, r *prng.R) {
	ctx := context.Background()
	gs := verifx.NewGossipStore(verifx.KVConfig{RecoveryThreshold: recoveryThreshold})
	nKeys := r.Range(1, 3)
	cur := map[string]int64{}        // key -> newest stored version
	lease := map[string]uint32{}     // key -> leaseholder of that newest stored operation
	tied := map[string]int64{}       // key -> version at which a tie was persisted
	fb := map[string]map[int64]int{} // key -> version -> feedback digests processed
	var evs []storeEvent
	nextVer := int64(0)
	nEv := r.Range(8, 40)
	lateFeedback, recovered, ties := 0, 0, 0
	shape := ""
	for i := 0; i < nEv; i++ {
		key := fmt.Sprintf("k%d", r.Intn(nKeys))
		if cur[key] == 0 || r.Chance(1, 4) {
			// what the persist stage hands over is always the winner so far: a newer version,
			// or (1 in 5) the SAME version from a higher leaseholder (two nodes created the
			// key at once; the tie goes to the higher one, which must then be the one offered)
			ver, lh := nextVer+1, uint32(1)
			if cur[key] != 0 && cur[key] == nextVer && r.Chance(1, 5) {
				ver, lh = cur[key], lease[key]+1
				ties++
			} else {
				nextVer++
			}
			op := verifx.Operation{Change: xkv.Change{Key: []byte(key), Value: []byte(fmt.Sprintf("x%d", lh)), Variant: change.VariantSet}, Version: version.Counter(ver), Leaseholder: verifx.NodeKey(lh)}
			if err := gs.Store(ctx, verifx.TxRequest{Operations: []verifx.Operation{op}}); err != nil {
				h.Inconclusive("store-error")
				return
			}
			if ver == cur[key] {
				// whether feedback counted for the loser carries over to the winner is the
				// store's own business: the feedback-count rule is not applied to this
				// version any more, only the tie rule
				tied[key] = ver
			}
			cur[key], lease[key] = ver, lh
			evs = append(evs, storeEvent{"persisted", key, ver})
			shape += fmt.Sprintf("P%s.%d.%d,", key, ver, lh)
		} else {
			// feedback for the current version (3/4) or for an older version of the key
			v := cur[key]
			if r.Chance(1, 4) {
				var older []int64
				for ov := range fb[key] {
					if ov < cur[key] {
						older = append(older, ov)
					}
				}
				if len(older) > 0 {
					v = older[0]
					for _, ov := range older {
						if ov > v {
							v = ov
						}
					}
					lateFeedback++
				}
			}
			fl := uint32(1)
			if v == cur[key] {
				fl = lease[key]
			}
			rec, err := gs.Feedback(ctx, verifx.Digests{{Key: []byte(key), Version: version.Counter(v), Leaseholder: verifx.NodeKey(fl), Variant: change.VariantSet}})
			if err != nil {
				h.Inconclusive("store-error")
				return
			}
			recovered += len(rec)
			if fb[key] == nil {
				fb[key] = map[int64]int{}
			}
			fb[key][v]++
			evs = append(evs, storeEvent{"feedback", key, v})
			shape += fmt.Sprintf("F%s.%d,", key, v)
		}
		if fb[key] == nil {
			fb[key] = map[int64]int{}
		}
		if _, ok := fb[key][cur[key]]; !ok {
			fb[key][cur[key]] = 0
		}
		// invariant after every event, for every key
		offered := map[string]int64{}
		offeredLease := map[string]uint32{}
		for _, op := range gs.Infected(ctx) {
			offered[string(op.Key)] = int64(op.Version)
			offeredLease[string(op.Key)] = uint32(op.Leaseholder)
		}
		for k, v := range cur {
			if offered[k] == v && offeredLease[k] != lease[k] {
				why := fmt.Sprintf("after event %d (%+v) the store offers %s@v%d of leaseholder %d although the operation persisted last for that version is leaseholder %d's (equal versions go to the higher leaseholder)", i, evs[len(evs)-1], k, v, offeredLease[k], lease[k])
				h.Violation("store", c, "c06:store-offers-the-loser-of-a-version-tie", why, map[string]any{"why": why, "events": evs})
				return
			}
		}
		for k, v := range cur {
			if tied[k] == v {
				continue
			}
			if fb[k][v] <= recoveryThreshold && offered[k] != v {
				why := fmt.Sprintf("after event %d (%+v) the store no longer offers %s@v%d although only %d feedback digests for that version were processed (threshold %d); it offers v%d", i, evs[len(evs)-1], k, v, fb[k][v], recoveryThreshold, offered[k])
				h.Violation("store", c, "c06:late-feedback-silences-newer-op:store-level", why, map[string]any{"why": why, "events": evs})
				return
			}
		}
	}
	if lateFeedback > 0 && recovered > 0 {
		h.Distinct(shape)
	}
	h.Count("store_events", len(evs))
	h.Count("store_late_feedback_events", lateFeedback)
	h.Count("store_ops_recovered", recovered)
	h.Count("store_version_ties_persisted", ties)
}
