package main

// Layer "ingress": deterministic delivery of generated operation sets (permuted,
// duplicated, batched, interleaved with replica-local writes) into the real filterPersist
// stage and the real versionAssigner->persist path of 2-4 replicas.
//
// Oracle (from the statement, computed from the delivered set only):
//   - every replica resolves each delivered operation by the rule "higher version wins,
//     equal versions go to the higher leaseholder": an operation is applied iff it beats
//     what the replica holds for the key;
//   - what a replica holds for a key never moves backwards in that order, and the value
//     stored is the value of the operation that owns the stored digest;
//   - when every replica has received the same set, all hold for every key the maximal
//     operation of the set (identical value / deletion / digest).

import (
	"context"
	"fmt"
	"runtime"
	"sync"

	"verif/lib/aspenkit"
	"verif/lib/harness"
)

type ingressWitness struct {
	Why   string                 `json:"why"`
	Step  int                    `json:"step"`
	Trace *aspenkit.IngressTrace `json:"trace"`
}

func layerIngress(h *harness.H) {
	h.AddRule("ingress: case = op set (5-25 remote set/delete ops, 1-4 keys, versions 1..7 with cross-leaseholder ties, 1-3 remote leaseholders) + per-replica permutation/duplication/batching + interleaved replica-local transactions of 1-3 ops whose leases are decided up to many deliveries before they commit (stale-lease races), delivered to 2-4 real filterPersist/versionAssigner+persist replicas; distinct = hash of op set and per-replica delivery order; non-trivial = at least one op accepted and one rejected on some replica")
	n := h.N(3000, 150000)
	par := runtime.GOMAXPROCS(0)
	if par > 16 {
		par = 16
	}
	var wg sync.WaitGroup
	cases := make(chan int, par)
	for w := 0; w < par; w++ {
		wg.Add(1)
		go func() {
			defer wg.Done()
			for c := range cases {
				ingressCase(h, c)
			}
		}()
	}
	for c := 0; c < n; c++ {
		if h.Skip("ingress", c) {
			continue
		}
		cases <- c
	}
	close(cases)
	wg.Wait()
}

func stateBeats(a, b aspenkit.KeyState) bool { // a strictly newer than b
	if !a.HasDigest {
		return false
	}
	if !b.HasDigest {
		return true
	}
	return aspenkit.Newer(a.Version, a.Lease, b.Version, b.Lease)
}

func ingressCase(h *harness.H, c int) {
	ctx := context.Background()
	r := h.Rand("ingress", c)
	h.Eval()
	t, err := aspenkit.RunIngress(ctx, r, aspenkit.DefaultIngressParams)
	if err != nil {
		h.Inconclusive("ingress-run-error")
		fmt.Printf("NOTE: ingress case %d: %v\n", c, err)
		return
	}
	viol := func(step int, sig, why string) {
		h.Violation("ingress", c, sig, why, ingressWitness{Why: why, Step: step, Trace: t})
	}
	nAcc, nRej := 0, 0
	for si, st := range t.Steps {
		if st.Err != "" {
			viol(si, "c06:ingress:pipeline-error", fmt.Sprintf("replica %d step %d: %s", st.Replica, si, st.Err))
			continue
		}
		// (iii) the rule, applied op by op to the pre-state, predicts the split.
		cur := map[string]aspenkit.KeyState{}
		for k, v := range st.Pre {
			cur[k] = v
		}
		acc := map[int]int{}
		for _, id := range st.Accepted {
			acc[id]++
		}
		rej := map[int]int{}
		for _, id := range st.Rejected {
			rej[id]++
		}
		if st.Kind == "batch" {
			if len(st.Accepted)+len(st.Rejected) != len(st.Ops) {
				viol(si, "c06:ingress:op-neither-accepted-nor-rejected", fmt.Sprintf("replica %d: batch of %d ops produced %d accepted + %d rejected", st.Replica, len(st.Ops), len(st.Accepted), len(st.Rejected)))
			}
			wantAcc := map[int]int{}
			for _, id := range st.Ops {
				o := t.Ops[id]
				ks := cur[o.Key]
				wins := !ks.HasDigest || aspenkit.Newer(o.Version, o.Lease, ks.Version, ks.Lease)
				if wins {
					wantAcc[id]++
					cur[o.Key] = aspenkit.KeyState{HasDigest: true, Version: o.Version, Lease: o.Lease, DigestDel: o.Del, Present: !o.Del, Value: o.Value}
				}
			}
			for _, id := range st.Ops {
				o := t.Ops[id]
				if acc[id] > wantAcc[id] {
					ks := st.Pre[o.Key]
					sig := "c06:ingress:accepted-op-that-does-not-win"
					if ks.HasDigest && ks.Version == o.Version && ks.Lease == o.Lease {
						sig = "c06:ingress:accepted-equal-op-again"
					}
					viol(si, sig, fmt.Sprintf("replica %d accepted %s although it held %s for the key (batch %v)", st.Replica, o, ks, st.Ops))
					break
				}
				if acc[id] < wantAcc[id] {
					viol(si, "c06:ingress:rejected-winning-op", fmt.Sprintf("replica %d rejected %s although it held only %s (batch %v)", st.Replica, o, st.Pre[o.Key], st.Ops))
					break
				}
			}
		} else {
			// a local transaction: its leases were decided earlier (tx.Set time); at commit
			// the same rule decides, op by op, against what the replica holds NOW
			for _, id := range st.Ops {
				o := t.Ops[id]
				ks := cur[o.Key]
				if !ks.HasDigest || aspenkit.Newer(o.Version, o.Lease, ks.Version, ks.Lease) {
					cur[o.Key] = aspenkit.KeyState{HasDigest: true, Version: o.Version, Lease: o.Lease, DigestDel: o.Del, Present: !o.Del, Value: o.Value}
				}
			}
		}
		nAcc += len(st.Accepted)
		nRej += len(st.Rejected)
		// (i) monotone digests, value owned by digest, and post-state = rule's result
		for _, k := range t.Keys {
			pre, post := st.Pre[k], st.Post[k]
			if stateBeats(pre, post) {
				viol(si, "c06:ingress:stored-op-replaced-by-older", fmt.Sprintf("replica %d key %s went from %s to %s (%s %v)", st.Replica, k, pre, post, st.Kind, st.Ops))
				continue
			}
			if post.HasDigest {
				id := t.Lookup(k, post.Version, post.Lease)
				if id < 0 {
					viol(si, "c06:ingress:digest-of-unknown-op", fmt.Sprintf("replica %d key %s holds %s which no delivered op owns", st.Replica, k, post))
					continue
				}
				o := t.Ops[id]
				if o.Del != post.DigestDel || post.Present == o.Del || (!o.Del && post.Value != o.Value) {
					viol(si, "c06:ingress:value-does-not-match-digest", fmt.Sprintf("replica %d key %s holds %s but the digest's op is %s", st.Replica, k, post, o))
					continue
				}
			} else if post.Present {
				viol(si, "c06:ingress:value-without-digest", fmt.Sprintf("replica %d key %s holds %s", st.Replica, k, post))
				continue
			}
			if want := cur[k]; want != post {
				viol(si, "c06:ingress:state-differs-from-rule", fmt.Sprintf("replica %d key %s: rule gives %s, engine holds %s after %s %v", st.Replica, k, want, post, st.Kind, st.Ops))
			}
		}
	}
	// (ii) same set received => identical, maximal state
	// (ops a local commit did not forward are never gossiped: only their origin has them,
	// and there they lost, so they are not part of the common set)
	all := map[int]bool{}
	for _, o := range t.Ops {
		if !o.Lost {
			all[o.ID] = true
		}
	}
	for ri, f := range t.Final {
		for id := range all {
			if !t.Delivered[ri][id] {
				h.Inconclusive("ingress-generator-did-not-deliver-all")
				return
			}
		}
		for _, k := range t.Keys {
			m := t.MaxOp(k, all)
			got := f[k]
			if m == nil {
				if got.HasDigest || got.Present {
					viol(-1, "c06:ingress:final-state-for-untouched-key", fmt.Sprintf("replica %d key %s holds %s", ri, k, got))
				}
				continue
			}
			want := aspenkit.KeyState{HasDigest: true, Version: m.Version, Lease: m.Lease, DigestDel: m.Del, Present: !m.Del, Value: m.Value}
			if got != want {
				sig := "c06:ingress:final-not-maximal-op"
				if ri > 0 && t.Final[0][k] != got {
					sig = "c06:ingress:replicas-diverged"
				}
				viol(-1, sig, fmt.Sprintf("replica %d key %s holds %s; maximal delivered op is %s; replica 0 holds %s", ri, k, got, *m, t.Final[0][k]))
			}
		}
	}
	if nAcc > 0 && nRej > 0 {
		h.Distinct(t.Shape)
	}
	h.Count("ingress_batches", t.NBatches)
	h.Count("ingress_local_writes", t.NLocal)
	h.Count("ingress_local_ops", t.NLocalOps)
	h.Count("ingress_local_ops_lost_at_commit", t.NLocalLost)
	h.Count("ingress_local_multi_op_txs", t.NLocalMulti)
	h.Count("ingress_local_txs_with_winner_and_loser", t.NLocalMixed)
	h.Count("ingress_ops_accepted", nAcc)
	h.Count("ingress_ops_rejected", nRej)
	h.Count("ingress_duplicate_deliveries", t.NDupDeliveries)
	h.Count("ingress_version_ties", t.NTies)
	h.Count("ingress_replica_runs", len(t.ReplicaIDs))
	if c < 2 {
		h.Sample(map[string]any{"layer": "ingress", "case": c, "replicas": t.ReplicaIDs, "ops": t.Ops, "steps": len(t.Steps), "final": t.Final[0]})
	}
}
