// C16 — the ontology graph stays acyclic, exact and free of dangling edges.
//
// Runtime monitor: generated histories of define/delete resource and define/delete
// relationship (single and one-to-many, three relationship types) inside committed and
// aborted transactions drive the REAL ontology (ontology.Open over gorp + memkv). A plain
// two-set reference model (resources, edges) with a transaction overlay predicts every
// outcome the statement fixes; after every operation the raw relationship/resource tables
// are scanned and compared with the model (so: no dangling edge, no cycle, nothing lost),
// and parent / child / two-hop / descendant / ancestor / typed traversals from every pool
// identifier are compared with graph search on the model, in the transaction's view and in
// the committed view.
package main

import (
	"context"
	"encoding/json"
	"fmt"
	"iter"
	"os"
	"runtime"
	"sort"
	"strings"
	"sync"
	"time"

	"github.com/cockroachdb/pebble/v2"
	"github.com/cockroachdb/pebble/v2/vfs"
	"github.com/synnaxlabs/synnax/pkg/distribution/ontology"
	"github.com/synnaxlabs/x/errors"
	"github.com/synnaxlabs/x/gorp"
	"github.com/synnaxlabs/x/kv"
	"github.com/synnaxlabs/x/kv/pebblekv"
	"github.com/synnaxlabs/x/observe"
	"github.com/synnaxlabs/x/query"
	"github.com/synnaxlabs/x/zyn"

	"verif/lib/harness"
	"verif/lib/prng"
)

func main() {
	if os.Getenv("VERIF_C16_CHILD") != "" {
		childMain()
		return
	}
	harness.Main("C16", "exploration",
		harness.Layer{Name: "pairs", Run: layerPairs},
		harness.Layer{Name: "seq", Run: layerSeq},
	)
}

// ---------------------------------------------------------------------------------------
// identifiers

// The pool is built so that identifier strings ("type:key") are prefixes / suffixes of one
// another, using resource types that really exist in the code base and really are string
// prefixes of one another (range / range-alias, schematic / schematic_symbol).
var pool = []string{
	"range:1", "range:10", "range:11", "range:101", "range:1x", "range:01",
	"range-alias:1", "range-alias:10",
	"schematic:1", "schematic:10", "schematic_symbol:1", "schematic_symbol:11",
	"group:1", "group:range:1", // key containing a ':' (explicitly allowed by ParseID)
	"builtin:root",
}

var poolTypes = []string{"range", "range-alias", "schematic", "schematic_symbol", "group"}

// Relationship types; the second and third are prefix-related with "parent" on purpose.
var relTypes = []string{"parent", "par", "parent_of", "labeled_by"}

func mkID(s string) ontology.ID {
	i := strings.IndexByte(s, ':')
	return ontology.ID{Type: ontology.ResourceType(s[:i]), Key: s[i+1:]}
}

func mkIDs(ss []string) []ontology.ID {
	out := make([]ontology.ID, len(ss))
	for i, s := range ss {
		out[i] = mkID(s)
	}
	return out
}

func typeOf(s string) string { return s[:strings.IndexByte(s, ':')] }

// ---------------------------------------------------------------------------------------
// reference model

type edge struct{ From, Typ, To string }

func (e edge) String() string { return e.From + " -" + e.Typ + "-> " + e.To }

type model struct {
	res   map[string]bool
	edges map[edge]bool
}

func newModel() *model {
	return &model{res: map[string]bool{"builtin:root": true}, edges: map[edge]bool{}}
}

func (m *model) clone() *model {
	c := &model{res: make(map[string]bool, len(m.res)), edges: make(map[edge]bool, len(m.edges))}
	for k := range m.res {
		c.res[k] = true
	}
	for k := range m.edges {
		c.edges[k] = true
	}
	return c
}

// reaches reports whether dst can be reached from src over edges of ALL types (path of
// length >= 0).
func (m *model) reaches(src, dst string) bool {
	if src == dst {
		return true
	}
	seen := map[string]bool{src: true}
	q := []string{src}
	for len(q) > 0 {
		x := q[0]
		q = q[1:]
		for e := range m.edges {
			if e.From == x && !seen[e.To] {
				if e.To == dst {
					return true
				}
				seen[e.To] = true
				q = append(q, e.To)
			}
		}
	}
	return false
}

// confusedReaches is reachability when the out-edges of x are taken to be every edge whose
// stored key merely starts with x's string (no separator). Used ONLY to classify a false
// refusal for the violation signature; never to decide a verdict.
func (m *model) confusedReaches(src, dst string) bool {
	seen := map[string]bool{src: true}
	q := []string{src}
	for len(q) > 0 {
		x := q[0]
		q = q[1:]
		for e := range m.edges {
			if strings.HasPrefix(e.From+"->"+e.Typ+"->"+e.To, x) && !seen[e.To] {
				if e.To == dst {
					return true
				}
				seen[e.To] = true
				q = append(q, e.To)
			}
		}
	}
	return false
}

func (m *model) removeResource(id string) {
	delete(m.res, id)
	for e := range m.edges {
		if e.From == id || e.To == id {
			delete(m.edges, e)
		}
	}
}

func (m *model) step(xs []string, typ string, forward bool) []string {
	in := map[string]bool{}
	for _, x := range xs {
		in[x] = true
	}
	out := map[string]bool{}
	for e := range m.edges {
		if e.Typ != typ {
			continue
		}
		if forward && in[e.From] {
			out[e.To] = true
		}
		if !forward && in[e.To] {
			out[e.From] = true
		}
	}
	return setSlice(out)
}

func (m *model) closure(x string, typ string, forward bool) []string {
	seen := map[string]bool{}
	frontier := []string{x}
	for len(frontier) > 0 {
		next := m.step(frontier, typ, forward)
		frontier = frontier[:0]
		for _, n := range next {
			if !seen[n] {
				seen[n] = true
				frontier = append(frontier, n)
			}
		}
	}
	return setSlice(seen)
}

func setSlice(m map[string]bool) []string {
	out := make([]string, 0, len(m))
	for k := range m {
		out = append(out, k)
	}
	sort.Strings(out)
	return out
}

func uniqSorted(xs []string) []string {
	m := map[string]bool{}
	for _, x := range xs {
		m[x] = true
	}
	return setSlice(m)
}

func eqStrs(a, b []string) bool {
	if len(a) != len(b) {
		return false
	}
	for i := range a {
		if a[i] != b[i] {
			return false
		}
	}
	return true
}

func diff(got, want []string) (extra, missing []string) {
	g, w := map[string]bool{}, map[string]bool{}
	for _, x := range got {
		g[x] = true
	}
	for _, x := range want {
		w[x] = true
	}
	for _, x := range got {
		if !w[x] {
			extra = append(extra, x)
		}
	}
	for _, x := range want {
		if !g[x] {
			missing = append(missing, x)
		}
	}
	return
}

// ---------------------------------------------------------------------------------------
// operations

type op struct {
	K    string   `json:"k"`              // defres defmany delres delmany defrel defrelmany delrel delout delin begin commit abort
	IDs  []string `json:"ids,omitempty"`  // resource ops; targets of defrelmany
	From string   `json:"from,omitempty"` // relationship ops
	To   string   `json:"to,omitempty"`
	Typ  string   `json:"t,omitempty"`
}

func (o op) String() string {
	switch o.K {
	case "defres", "defmany", "delres", "delmany":
		return o.K + "(" + strings.Join(o.IDs, ",") + ")"
	case "defrel", "delrel":
		return fmt.Sprintf("%s(%s -%s-> %s)", o.K, o.From, o.Typ, o.To)
	case "defrelmany":
		return fmt.Sprintf("defrelmany(%s -%s-> [%s])", o.From, o.Typ, strings.Join(o.IDs, ","))
	case "delout":
		return fmt.Sprintf("delout(%s,%s)", o.From, o.Typ)
	case "delin":
		return fmt.Sprintf("delin(%s,%s)", o.To, o.Typ)
	}
	return o.K
}

type finding struct {
	Sig  string `json:"sig"`
	What string `json:"what"`
	At   int    `json:"at"` // op index
}

type stats struct {
	Ops, DefrelOK, DefrelCycle, DefrelMissing, DefrelNoop, DefmanyOK, DefmanyRefused int
	Traversals, TraversalsNonEmpty, RawScans, Commits, Aborts, DelresWithEdges       int
	MaxDepth, MultiParent, EdgesPeak                                                 int
}

// genericService answers every key of one resource type, so that traversals that load
// field data (the default) work for the pool's types.
type genericService struct {
	observe.Noop[iter.Seq[ontology.Change]]
	t ontology.ResourceType
}

var genericSchema = zyn.Object(map[string]zyn.Schema{"key": zyn.String()})

func (s *genericService) Type() ontology.ResourceType { return s.t }
func (s *genericService) Schema() zyn.Schema          { return genericSchema }
func (s *genericService) RetrieveResource(_ context.Context, key string, _ gorp.Tx) (ontology.Resource, error) {
	return ontology.Resource{ID: ontology.ID{Type: s.t, Key: key}, Name: "n"}, nil
}

// newMemKV is memkv.New() (pebble over an in-memory filesystem wrapped by pebblekv) with
// a small memtable and block cache: one store is opened per history and the 4 MiB default
// arena dominates the run time otherwise. The KV engine is not what C16 is about.
func newMemKV() kv.DB {
	cache := pebble.NewCache(1 << 20)
	defer cache.Unref()
	pdb, err := pebble.Open("", &pebble.Options{
		FS:           vfs.NewMem(),
		Logger:       pebblekv.NewNoopLogger(),
		MemTableSize: 256 << 10,
		Cache:        cache,
	})
	if err != nil {
		panic(err)
	}
	return pebblekv.Wrap(pdb)
}

type world struct {
	ctx  context.Context
	db   *gorp.DB
	otg  *ontology.Ontology
	tx   gorp.Tx // nil when no transaction is open
	com  *model  // committed state
	txm  *model  // transaction view (nil when no tx)
	ids  []string
	miss string // an identifier never defined in this history
	st   *stats
	out  []finding
	at   int
	stop bool
}

func (w *world) view() *model {
	if w.txm != nil {
		return w.txm
	}
	return w.com
}

func (w *world) report(sig, what string) {
	w.out = append(w.out, finding{Sig: sig, What: what, At: w.at})
}

func openWorld(ids []string, miss string, st *stats) (*world, error) {
	ctx := context.Background()
	db := gorp.Wrap(newMemKV())
	otg, err := ontology.Open(ctx, ontology.Config{DB: db})
	if err != nil {
		_ = db.Close()
		return nil, err
	}
	for _, t := range poolTypes {
		otg.RegisterService(&genericService{t: ontology.ResourceType(t)})
	}
	return &world{ctx: ctx, db: db, otg: otg, com: newModel(), ids: ids, miss: miss, st: st}, nil
}

func (w *world) close() {
	if w.tx != nil {
		_ = w.tx.Close()
		w.tx = nil
	}
	_ = w.otg.Close()
	_ = w.db.Close()
}

// runScript executes ops against a fresh ontology and returns every divergence from the
// statement. It is a pure function of (ids, miss, ops).
func runScript(ids []string, miss string, ops []op, st *stats) (out []finding) {
	if st == nil {
		st = &stats{}
	}
	w, err := openWorld(ids, miss, st)
	if err != nil {
		return []finding{{Sig: "c16:harness:open-failed", What: err.Error()}}
	}
	defer w.close()
	defer func() {
		if r := recover(); r != nil {
			w.report("c16:panic", fmt.Sprintf("real code panicked at op %d: %v", w.at, r))
			out = w.out
		}
	}()
	for i, o := range ops {
		w.at = i
		w.apply(o)
		if w.stop {
			break
		}
		w.checkAll(o.K == "commit" || o.K == "abort" || i == len(ops)-1, o.touched())
		if w.stop {
			break
		}
	}
	return w.out
}

func (w *world) writer() ontology.Writer { return w.otg.NewWriter(w.tx) }

func (w *world) apply(o op) {
	w.st.Ops++
	m := w.view()
	wr := w.writer()
	switch o.K {
	case "begin":
		if w.tx == nil {
			w.tx = w.db.OpenTx()
			w.txm = w.com.clone()
		}
	case "commit":
		if w.tx != nil {
			err := w.tx.Commit(w.ctx)
			_ = w.tx.Close()
			w.tx = nil
			if err != nil {
				w.report("c16:tx:commit-error", err.Error())
				w.stop = true
				return
			}
			w.com, w.txm = w.txm, nil
			w.st.Commits++
		}
	case "abort":
		if w.tx != nil {
			_ = w.tx.Close()
			w.tx, w.txm = nil, nil
			w.st.Aborts++
		}
	case "defres":
		if err := wr.DefineResource(w.ctx, mkID(o.IDs[0])); err != nil {
			w.report("c16:define-resource:error", fmt.Sprintf("%s: %v", o, err))
			w.stop = true
			return
		}
		m.res[o.IDs[0]] = true
	case "defmany":
		if err := wr.DefineManyResources(w.ctx, mkIDs(o.IDs)); err != nil {
			w.report("c16:define-resource:error", fmt.Sprintf("%s: %v", o, err))
			w.stop = true
			return
		}
		for _, id := range o.IDs {
			m.res[id] = true
		}
	case "delres", "delmany":
		for _, id := range o.IDs {
			for e := range m.edges {
				if e.From == id || e.To == id {
					w.st.DelresWithEdges++
					break
				}
			}
		}
		var err error
		if o.K == "delres" {
			err = wr.DeleteResource(w.ctx, mkID(o.IDs[0]))
		} else {
			err = wr.DeleteManyResources(w.ctx, mkIDs(o.IDs))
		}
		if err != nil {
			w.report("c16:delete-resource:error", fmt.Sprintf("%s: %v", o, err))
			w.stop = true
			return
		}
		for _, id := range o.IDs {
			m.removeResource(id)
		}
	case "defrel":
		w.defineRel(wr, m, o)
	case "defrelmany":
		w.defineRelMany(wr, m, o)
	case "delrel":
		if err := wr.DeleteRelationship(w.ctx, mkID(o.From), ontology.RelationshipType(o.Typ), mkID(o.To)); err != nil {
			w.report("c16:delete-relationship:error", fmt.Sprintf("%s: %v", o, err))
			w.stop = true
			return
		}
		delete(m.edges, edge{o.From, o.Typ, o.To})
	case "delout":
		if err := wr.DeleteOutgoingRelationshipsOfType(w.ctx, mkID(o.From), ontology.RelationshipType(o.Typ)); err != nil {
			w.report("c16:delete-relationship:error", fmt.Sprintf("%s: %v", o, err))
			w.stop = true
			return
		}
		for e := range m.edges {
			if e.From == o.From && e.Typ == o.Typ {
				delete(m.edges, e)
			}
		}
	case "delin":
		if err := wr.DeleteIncomingRelationshipsOfType(w.ctx, mkID(o.To), ontology.RelationshipType(o.Typ)); err != nil {
			w.report("c16:delete-relationship:error", fmt.Sprintf("%s: %v", o, err))
			w.stop = true
			return
		}
		for e := range m.edges {
			if e.To == o.To && e.Typ == o.Typ {
				delete(m.edges, e)
			}
		}
	}
	if n := len(m.edges); n > w.st.EdgesPeak {
		w.st.EdgesPeak = n
	}
}

// why a define must be refused according to the statement ("" = must succeed).
func (m *model) refusal(from, to string) string {
	if !m.res[from] || !m.res[to] {
		return "missing-endpoint"
	}
	if from == to {
		return "self-edge"
	}
	if m.reaches(to, from) {
		return "cycle"
	}
	return ""
}

func (w *world) defineRel(wr ontology.Writer, m *model, o op) {
	e := edge{o.From, o.Typ, o.To}
	err := wr.DefineRelationship(w.ctx, mkID(o.From), ontology.RelationshipType(o.Typ), mkID(o.To))
	if m.edges[e] {
		// "a no-op if it already exists"
		w.st.DefrelNoop++
		if err != nil {
			w.report("c16:define-rel:existing-edge-refused", fmt.Sprintf("%s already exists but redefinition returned %v", e, err))
		}
		return
	}
	why := m.refusal(o.From, o.To)
	switch {
	case why == "" && err == nil:
		m.edges[e] = true
		w.st.DefrelOK++
	case why == "" && err != nil:
		cls := "other"
		if m.confusedReaches(o.To, o.From) {
			cls = "sibling-prefix"
		}
		w.report("c16:define-rel:refused-no-cycle:"+cls,
			fmt.Sprintf("%s: both endpoints exist and %s does not reach %s over any edge, yet: %v", o, o.To, o.From, err))
		// the model follows the real outcome so that the history can go on
	case why != "" && err != nil:
		if why == "missing-endpoint" {
			w.st.DefrelMissing++
		} else {
			w.st.DefrelCycle++
		}
	case why != "" && err == nil:
		w.report("c16:define-rel:accepted:"+why, fmt.Sprintf("%s succeeded although the statement requires refusal (%s)", o, why))
		// restore agreement through the real API so that the history can go on
		if dErr := wr.DeleteRelationship(w.ctx, mkID(o.From), ontology.RelationshipType(o.Typ), mkID(o.To)); dErr != nil {
			w.stop = true
		}
	}
}

func (w *world) defineRelMany(wr ontology.Writer, m *model, o op) {
	err := wr.DefineFromOneToManyRelationships(w.ctx, mkID(o.From), ontology.RelationshipType(o.Typ), mkIDs(o.IDs))
	if len(o.IDs) == 0 {
		return // no relationship is defined: the statement fixes no outcome; the state checks still run
	}
	why := ""
	for _, to := range o.IDs {
		if m.edges[edge{o.From, o.Typ, to}] {
			continue // existing edge: no-op, closes nothing new
		}
		if r := m.refusal(o.From, to); r != "" {
			why = r
			break
		}
	}
	if len(o.IDs) > 0 && !m.res[o.From] {
		why = "missing-endpoint"
	}
	switch {
	case why == "" && err == nil:
		for _, to := range o.IDs {
			m.edges[edge{o.From, o.Typ, to}] = true
		}
		w.st.DefmanyOK++
	case why == "" && err != nil:
		cls := "other"
		for _, to := range o.IDs {
			if m.confusedReaches(to, o.From) {
				cls = "sibling-prefix"
			}
		}
		w.report("c16:define-rel-many:refused-no-cycle:"+cls, fmt.Sprintf("%s: all endpoints exist and no target reaches the source, yet: %v", o, err))
	case why != "" && err != nil:
		w.st.DefmanyRefused++
	case why != "" && err == nil:
		w.report("c16:define-rel-many:accepted:"+why, fmt.Sprintf("%s succeeded although the statement requires refusal (%s)", o, why))
		for _, to := range o.IDs {
			if m.edges[edge{o.From, o.Typ, to}] {
				continue
			}
			if dErr := wr.DeleteRelationship(w.ctx, mkID(o.From), ontology.RelationshipType(o.Typ), mkID(to)); dErr != nil {
				w.stop = true
			}
		}
	}
}

// ---------------------------------------------------------------------------------------
// observation

// checkAll observes after every operation: the raw tables always; traversals from the
// identifiers the operation touched always, and from every pool identifier at quiescent
// points (commit, abort, end of history) and after every fourth operation.
func (w *world) checkAll(full bool, touched []string) {
	full = full || w.at%4 == 3
	starts := touched
	if full {
		starts = append(append([]string{}, w.ids...), w.miss)
	}
	// a raw-table divergence ends the history (w.stop): traversals over a state that is
	// already known to be wrong would only repeat the same defect under other signatures
	if w.txm != nil {
		w.checkRaw(w.tx, w.txm, "tx")
		if w.stop {
			return
		}
		w.checkTraversals(w.tx, w.txm, "tx", starts)
		if full {
			w.checkRaw(nil, w.com, "committed")
			if w.stop {
				return
			}
			w.checkTraversals(nil, w.com, "committed", starts)
		}
		return
	}
	w.checkRaw(nil, w.com, "committed")
	if w.stop {
		return
	}
	w.checkTraversals(nil, w.com, "committed", starts)
}

func (o op) touched() []string {
	t := append([]string{}, o.IDs...)
	if o.From != "" {
		t = append(t, o.From)
	}
	if o.To != "" {
		t = append(t, o.To)
	}
	return uniqSorted(t)
}

func (w *world) checkRaw(tx gorp.Tx, m *model, view string) {
	w.st.RawScans++
	gtx := gorp.OverrideTx(w.db, tx)
	var rels []ontology.Relationship
	if err := gorp.NewRetrieve[string, ontology.Relationship]().Entries(&rels).Exec(w.ctx, gtx); err != nil {
		w.report("c16:raw:scan-error", err.Error())
		w.stop = true
		return
	}
	var ress []ontology.Resource
	if err := gorp.NewRetrieve[string, ontology.Resource]().Entries(&ress).Exec(w.ctx, gtx); err != nil {
		w.report("c16:raw:scan-error", err.Error())
		w.stop = true
		return
	}
	rawRes := map[string]bool{}
	for _, r := range ress {
		rawRes[r.ID.String()] = true
	}
	rawEdges := map[edge]bool{}
	adj := map[string][]string{}
	for _, r := range rels {
		e := edge{r.From.String(), string(r.Type), r.To.String()}
		rawEdges[e] = true
		adj[e.From] = append(adj[e.From], e.To)
		if !rawRes[e.From] || !rawRes[e.To] {
			w.report("c16:raw:dangling-edge", fmt.Sprintf("[%s view] stored relationship %s touches a resource that does not exist", view, e))
			w.stop = true
		}
	}
	// acyclicity of what is actually stored (all relationship types together)
	color := map[string]int{}
	var cyc []string
	var dfs func(x string) bool
	dfs = func(x string) bool {
		color[x] = 1
		for _, y := range adj[x] {
			if color[y] == 1 {
				cyc = []string{x, y}
				return true
			}
			if color[y] == 0 && dfs(y) {
				return true
			}
		}
		color[x] = 2
		return false
	}
	for x := range adj {
		if color[x] == 0 && dfs(x) {
			kind := "cycle"
			if cyc[0] == cyc[1] {
				kind = "self-edge"
			}
			w.report("c16:raw:stored-"+kind, fmt.Sprintf("[%s view] the stored relationship table contains a cycle through %s -> %s", view, cyc[0], cyc[1]))
			w.stop = true
			break
		}
	}
	for e := range m.edges {
		if !rawEdges[e] {
			w.report("c16:raw:edge-lost", fmt.Sprintf("[%s view] relationship %s should exist but is not stored", view, e))
			w.stop = true
			break
		}
	}
	for e := range rawEdges {
		if !m.edges[e] {
			w.report("c16:raw:edge-unexpected", fmt.Sprintf("[%s view] stored relationship %s should not exist", view, e))
			w.stop = true
			break
		}
	}
	for r := range m.res {
		if !rawRes[r] {
			w.report("c16:raw:resource-lost", fmt.Sprintf("[%s view] resource %s should exist", view, r))
			w.stop = true
			break
		}
	}
	for r := range rawRes {
		if !m.res[r] {
			w.report("c16:raw:resource-unexpected", fmt.Sprintf("[%s view] resource %s should not exist", view, r))
			w.stop = true
			break
		}
	}
	// shape bookkeeping for the evidence file
	if view != "tx" {
		indeg := map[string]int{}
		for e := range m.edges {
			if e.Typ == "parent" {
				indeg[e.To]++
			}
		}
		mp := 0
		for _, d := range indeg {
			if d >= 2 {
				mp++
			}
		}
		if mp > w.st.MultiParent {
			w.st.MultiParent = mp
		}
	}
}

func (w *world) query(tx gorp.Tx, start []string, hops []bool, types []string, excl bool) ([]string, error) {
	var res []ontology.Resource
	q := w.otg.NewRetrieve().WhereIDs(mkIDs(start)...)
	for _, fwd := range hops {
		if fwd {
			q = q.TraverseTo(ontology.ChildrenTraverser)
		} else {
			q = q.TraverseTo(ontology.ParentsTraverser)
		}
	}
	if len(types) > 0 {
		ts := make([]ontology.ResourceType, len(types))
		for i, t := range types {
			ts[i] = ontology.ResourceType(t)
		}
		q = q.WhereTypes(ts...)
	}
	if excl {
		q = q.ExcludeFieldData(true)
	}
	err := q.Entries(&res).Exec(w.ctx, tx)
	out := make([]string, 0, len(res))
	for _, r := range res {
		out = append(out, r.ID.String())
	}
	return uniqSorted(out), err
}

func (w *world) compare(name, view string, start []string, got []string, err error, want []string, m *model) {
	w.st.Traversals++
	if len(want) > 0 {
		w.st.TraversalsNonEmpty++
	}
	if err != nil {
		// Starting a traversal at an identifier that does not exist may be answered with
		// "not found" instead of an empty result: the statement only forbids returning or
		// passing through missing resources.
		if errors.Is(err, query.ErrNotFound) && len(want) == 0 {
			for _, s := range start {
				if !m.res[s] {
					return
				}
			}
		}
		w.report("c16:traverse:"+name+":error", fmt.Sprintf("[%s view] %s from %v returned error %v (expected %v)", view, name, start, err, want))
		return
	}
	if eqStrs(got, want) {
		return
	}
	extra, _ := diff(got, want)
	kind := "missing"
	if len(extra) > 0 {
		kind = "extra"
		for _, x := range extra {
			if !m.res[x] {
				kind = "returns-missing-resource"
			}
		}
	}
	w.report("c16:traverse:"+name+":"+kind, fmt.Sprintf("[%s view] %s from %v = %v, graph search says %v", view, name, start, got, want))
}

func filterTypes(xs []string, types []string) []string {
	out := []string{}
	for _, x := range xs {
		for _, t := range types {
			if typeOf(x) == t {
				out = append(out, x)
				break
			}
		}
	}
	return out
}

func (w *world) checkTraversals(tx gorp.Tx, m *model, view string, starts []string) {
	const P = "parent"
	for si, x := range starts {
		one := []string{x}
		ch := m.step(one, P, true)
		pa := m.step(one, P, false)

		got, err := w.query(tx, one, []bool{true}, nil, false)
		w.compare("children", view, one, got, err, ch, m)
		got, err = w.query(tx, one, []bool{false}, nil, si%2 == 0)
		w.compare("parents", view, one, got, err, pa, m)

		if len(ch) > 0 {
			got, err = w.query(tx, one, []bool{true, true}, nil, false)
			w.compare("grandchildren", view, one, got, err, m.step(ch, P, true), m)
			got, err = w.query(tx, one, []bool{true, false}, nil, true)
			w.compare("coparents", view, one, got, err, m.step(ch, P, false), m)
			// typed filters on the traversal result: one type (prefix path), two types (predicate path)
			t1 := poolTypes[(si+w.at)%len(poolTypes)]
			got, err = w.query(tx, one, []bool{true}, []string{t1}, false)
			w.compareTyped("children-of-type", view, one, []string{t1}, got, err, filterTypes(ch, []string{t1}), ch, m)
			t2 := poolTypes[(si+w.at+2)%len(poolTypes)]
			got, err = w.query(tx, one, []bool{true}, []string{t1, t2}, false)
			w.compareTyped("children-of-types", view, one, []string{t1, t2}, got, err, filterTypes(ch, []string{t1, t2}), ch, m)
		}
		if len(pa) > 0 {
			got, err = w.query(tx, one, []bool{false, false}, nil, false)
			w.compare("grandparents", view, one, got, err, m.step(pa, P, false), m)
			// descendants / ancestors by iterating the real one-hop traversal over multi-id frontiers
			w.closureCheck(tx, m, view, x, false)
		}
		if len(ch) > 0 {
			w.closureCheck(tx, m, view, x, true)
		}
	}
	// typed retrieval without traversal
	t := poolTypes[w.at%len(poolTypes)]
	var res []ontology.Resource
	err := w.otg.NewRetrieve().WhereTypes(ontology.ResourceType(t)).Entries(&res).Exec(w.ctx, tx)
	got := make([]string, 0, len(res))
	for _, r := range res {
		got = append(got, r.ID.String())
	}
	got = uniqSorted(got)
	all := setSlice(m.res)
	w.compareTyped("resources-of-type", view, nil, []string{t}, got, err, filterTypes(all, []string{t}), all, m)
}

// compareTyped is compare with a dedicated signature for the case where a filter on ONE
// type lets through resources whose type merely starts with the requested type.
func (w *world) compareTyped(name, view string, start []string, types []string, got []string, err error, want, unfiltered []string, m *model) {
	if err == nil && len(types) == 1 && !eqStrs(got, want) {
		extra, missing := diff(got, want)
		if len(missing) == 0 && len(extra) > 0 {
			leak := true
			in := map[string]bool{}
			for _, u := range unfiltered {
				in[u] = true
			}
			for _, x := range extra {
				if !in[x] || !strings.HasPrefix(typeOf(x), types[0]) {
					leak = false
				}
			}
			if leak {
				w.st.Traversals++
				w.report("c16:type-filter:single-type-matches-longer-type-name",
					fmt.Sprintf("[%s view] %s %v from %v = %v, expected %v: WhereTypes(%q) lets resources of a type that merely starts with %q through", view, name, types, start, got, want, types[0], types[0]))
				return
			}
		}
	}
	w.compare(name, view, start, got, err, want, m)
}

func (w *world) closureCheck(tx gorp.Tx, m *model, view, x string, fwd bool) {
	name := "ancestors"
	if fwd {
		name = "descendants"
	}
	seen := map[string]bool{}
	frontier := []string{x}
	depth := 0
	for len(frontier) > 0 && depth < 64 {
		got, err := w.query(tx, frontier, []bool{fwd}, nil, true)
		if err != nil {
			w.compare(name, view, []string{x}, nil, err, m.closure(x, "parent", fwd), m)
			return
		}
		frontier = frontier[:0]
		for _, g := range got {
			if !seen[g] {
				seen[g] = true
				frontier = append(frontier, g)
			}
		}
		if len(frontier) > 0 {
			depth++
		}
	}
	if depth > w.st.MaxDepth {
		w.st.MaxDepth = depth
	}
	if depth >= 64 {
		w.report("c16:traverse:"+name+":does-not-terminate", fmt.Sprintf("[%s view] iterated %s from %s did not reach a fixpoint in 64 hops", view, name, x))
		return
	}
	w.compare(name, view, []string{x}, setSlice(seen), nil, m.closure(x, "parent", fwd), m)
}

// ---------------------------------------------------------------------------------------
// generation

type script struct {
	IDs  []string `json:"ids"`
	Miss string   `json:"missing_id"`
	Ops  []op     `json:"ops"`
}

func genScript(r *prng.R, quick bool) script {
	perm := append([]string{}, pool[:len(pool)-1]...) // root handled separately
	prng.Shuffle(r, perm)
	n := r.Range(4, 9)
	// make sure at least one prefix-related pair is present in most histories
	ids := append([]string{}, perm[:n]...)
	if r.Chance(3, 4) {
		pairs := [][2]string{{"range:1", "range:10"}, {"range:1", "range:11"}, {"range:10", "range:101"}, {"range:1", "range:1x"},
			{"range-alias:1", "range-alias:10"}, {"schematic:1", "schematic:10"}, {"schematic_symbol:1", "schematic_symbol:11"}, {"group:1", "group:range:1"}}
		p := pairs[r.Intn(len(pairs))]
		ids = append(ids, p[0], p[1])
	}
	ids = uniqSorted(ids)
	miss := ""
	for _, p := range perm {
		found := false
		for _, i := range ids {
			if i == p {
				found = true
			}
		}
		if !found {
			miss = p
			break
		}
	}
	if miss == "" {
		miss = "range:never"
	}
	pick := func() string { return ids[r.Intn(len(ids))] }
	pickAny := func() string {
		if r.Chance(1, 12) {
			return "builtin:root"
		}
		if r.Chance(1, 25) {
			return miss
		}
		return pick()
	}
	rt := func() string {
		if r.Chance(7, 10) {
			return "parent"
		}
		return relTypes[r.Intn(len(relTypes))]
	}
	var ops []op
	inTx := false
	// most resources are defined up front so that relationship operations are meaningful
	first := append([]string{}, ids...)
	prng.Shuffle(r, first)
	k := len(first) - r.Intn(3)
	if k < 2 {
		k = 2
	}
	if r.Bool() {
		ops = append(ops, op{K: "defmany", IDs: first[:k]})
	} else {
		for _, id := range first[:k] {
			ops = append(ops, op{K: "defres", IDs: []string{id}})
		}
	}
	// optional seeded shape
	switch r.Intn(5) {
	case 0: // chain
		for i := 0; i+1 < k; i++ {
			ops = append(ops, op{K: "defrel", From: first[i], Typ: "parent", To: first[i+1]})
		}
	case 1: // diamond(s)
		if k >= 4 {
			ops = append(ops,
				op{K: "defrelmany", From: first[0], Typ: "parent", IDs: []string{first[1], first[2]}},
				op{K: "defrel", From: first[1], Typ: "parent", To: first[3]},
				op{K: "defrel", From: first[2], Typ: "parent", To: first[3]})
		}
	case 2: // fan from root
		ops = append(ops, op{K: "defrelmany", From: "builtin:root", Typ: "parent", IDs: append([]string{}, first[:k]...)})
	}
	nOps := r.Range(20, 80)
	for len(ops) < nOps {
		x := r.Intn(100)
		switch {
		case x < 12:
			ops = append(ops, op{K: "defres", IDs: []string{pickAny()}})
		case x < 15:
			m := r.Range(1, 3)
			l := []string{}
			for i := 0; i < m; i++ {
				l = append(l, pick())
			}
			ops = append(ops, op{K: "defmany", IDs: l})
		case x < 58:
			ops = append(ops, op{K: "defrel", From: pickAny(), Typ: rt(), To: pickAny()})
		case x < 66:
			m := r.Range(0, 4)
			l := []string{}
			for i := 0; i < m; i++ {
				l = append(l, pickAny())
			}
			ops = append(ops, op{K: "defrelmany", From: pickAny(), Typ: rt(), IDs: l})
		case x < 71:
			ops = append(ops, op{K: "delres", IDs: []string{pick()}})
		case x < 72:
			m := r.Range(0, 3)
			l := []string{}
			for i := 0; i < m; i++ {
				l = append(l, pick())
			}
			ops = append(ops, op{K: "delmany", IDs: l})
		case x < 80:
			ops = append(ops, op{K: "delrel", From: pickAny(), Typ: rt(), To: pickAny()})
		case x < 83:
			ops = append(ops, op{K: "delout", From: pickAny(), Typ: rt()})
		case x < 86:
			ops = append(ops, op{K: "delin", To: pickAny(), Typ: rt()})
		default:
			if !inTx {
				ops = append(ops, op{K: "begin"})
				inTx = true
			} else {
				if r.Chance(2, 3) {
					ops = append(ops, op{K: "commit"})
				} else {
					ops = append(ops, op{K: "abort"})
				}
				inTx = false
			}
		}
	}
	if inTx {
		if r.Bool() {
			ops = append(ops, op{K: "commit"})
		} else {
			ops = append(ops, op{K: "abort"})
		}
	}
	return script{IDs: ids, Miss: miss, Ops: ops}
}

// ---------------------------------------------------------------------------------------
// minimisation (delta debugging over the operation list, same signature must persist)

func hasSig(fs []finding, sig string) bool {
	for _, f := range fs {
		if f.Sig == sig {
			return true
		}
	}
	return false
}

func minimise(s script, sig string, run func(script) []finding) script {
	test := func(ops []op) bool { return hasSig(run(script{IDs: s.IDs, Miss: s.Miss, Ops: ops}), sig) }
	ops := s.Ops
	// cut the tail after the first occurrence
	fs := run(s)
	for _, f := range fs {
		if f.Sig == sig && f.At >= 0 && f.At+1 < len(ops) {
			if test(ops[:f.At+1]) {
				ops = ops[:f.At+1]
			}
			break
		}
	}
	n := 2
	for len(ops) >= 2 {
		chunk := (len(ops) + n - 1) / n
		reduced := false
		for i := 0; i < len(ops); i += chunk {
			j := i + chunk
			if j > len(ops) {
				j = len(ops)
			}
			cand := append(append([]op{}, ops[:i]...), ops[j:]...)
			if len(cand) > 0 && test(cand) {
				ops = cand
				if n > 2 {
					n--
				}
				reduced = true
				break
			}
		}
		if !reduced {
			if chunk == 1 {
				break
			}
			n *= 2
			if n > len(ops) {
				n = len(ops)
			}
		}
	}
	// split multi-id operations
	for i := 0; i < len(ops); i++ {
		for len(ops[i].IDs) > 1 {
			shr := false
			for k := range ops[i].IDs {
				cand := append([]op{}, ops...)
				c := cand[i]
				c.IDs = append(append([]string{}, ops[i].IDs[:k]...), ops[i].IDs[k+1:]...)
				cand[i] = c
				if test(cand) {
					ops = cand
					shr = true
					break
				}
			}
			if !shr {
				break
			}
		}
	}
	used := map[string]bool{}
	for _, o := range ops {
		for _, id := range o.IDs {
			used[id] = true
		}
		if o.From != "" {
			used[o.From] = true
		}
		if o.To != "" {
			used[o.To] = true
		}
	}
	out := script{IDs: s.IDs, Miss: s.Miss, Ops: ops}
	// shrink the observed identifier set to what the script uses, if the signature persists
	if ids := setSlice(used); len(ids) > 0 && hasSig(run(script{IDs: ids, Miss: s.Miss, Ops: ops}), sig) {
		out.IDs = ids
	}
	return out
}

// ---------------------------------------------------------------------------------------
// layers

type sigCounter struct {
	mu sync.Mutex
	n  map[string]int
}

func (s *sigCounter) first(sig string, k int) bool {
	s.mu.Lock()
	defer s.mu.Unlock()
	if s.n == nil {
		s.n = map[string]int{}
	}
	s.n[sig]++
	return s.n[sig] <= k
}

var sigs sigCounter

type witness struct {
	Original  int      `json:"original_ops"`
	IDs       []string `json:"observed_ids"`
	Missing   string   `json:"missing_id"`
	Minimised []string `json:"minimised_script"`
	Ops       []op     `json:"ops"`
	Findings  []string `json:"all_signatures_in_history"`
}

// exec runs one script in the worker's child and folds a child death into the findings.
func (w *worker) exec(h *harness.H, s script) ([]finding, stats) {
	t0 := time.Now()
	rs, died, err := w.run(s)
	if died != nil {
		h.Count("child_deaths", 1)
		h.Count("wall_ms_in_dying_children", int(time.Since(t0).Milliseconds()))
		if os.Getenv("VERIF_C16_DEBUG") != "" {
			b, _ := json.Marshal(request{IDs: s.IDs, Miss: s.Miss, Ops: s.Ops})
			fmt.Fprintf(os.Stderr, "DEATH ms=%d %s\n", time.Since(t0).Milliseconds(), b)
		}
	} else {
		h.Count("wall_ms_in_children", int(time.Since(t0).Milliseconds()))
	}
	if err != nil {
		fmt.Printf("HARNESS-ERROR: C16 child process plumbing failed: %v\n", err)
		os.Exit(2)
	}
	if died != nil {
		if died.Class == "timeout" {
			h.Inconclusive("child-watchdog")
			return nil, rs.Stats
		}
		return []finding{{Sig: "c16:fatal:" + died.Class, What: "the process executing the history died: " + died.Detail, At: -1}}, rs.Stats
	}
	return rs.Findings, rs.Stats
}

func reportFindings(h *harness.H, w *worker, layer string, c int, s script, fs []finding) {
	seen := map[string]bool{}
	var all []string
	for _, f := range fs {
		if !seen[f.Sig] {
			seen[f.Sig] = true
			all = append(all, f.Sig)
		}
	}
	run := func(x script) []finding { r, _ := w.exec(h, x); return r }
	seen = map[string]bool{}
	for _, f := range fs {
		if seen[f.Sig] {
			continue
		}
		seen[f.Sig] = true
		wit := witness{Original: len(s.Ops), IDs: s.IDs, Missing: s.Miss, Findings: all}
		what := f.What
		if sigs.first(f.Sig, 3) {
			t0 := time.Now()
			ms := minimise(s, f.Sig, run)
			h.Count("wall_ms_minimising", int(time.Since(t0).Milliseconds()))
			wit.IDs = ms.IDs
			wit.Ops = ms.Ops
			for _, o := range ms.Ops {
				wit.Minimised = append(wit.Minimised, o.String())
			}
			for _, mf := range run(ms) {
				if mf.Sig == f.Sig {
					what = mf.What + " | minimal script: " + strings.Join(wit.Minimised, "; ")
					break
				}
			}
			h.Violation(layer, c, f.Sig, what, wit)
			continue
		}
		// Later occurrences are not minimised. They are handed to the harness only after
		// the layer has finished, so that the three witnesses it keeps per signature are
		// the minimised ones.
		wit.Ops = s.Ops
		deferred.add(deferredViolation{layer, c, f.Sig, what, wit})
	}
}

type deferredViolation struct {
	layer string
	c     int
	sig   string
	what  string
	wit   witness
}

type deferredList struct {
	mu sync.Mutex
	l  []deferredViolation
}

func (d *deferredList) add(v deferredViolation) {
	d.mu.Lock()
	// all are counted; only the first few per signature need their witness kept in memory
	d.l = append(d.l, v)
	d.mu.Unlock()
}

func (d *deferredList) flush(h *harness.H) {
	d.mu.Lock()
	l := d.l
	d.l = nil
	d.mu.Unlock()
	sort.SliceStable(l, func(i, j int) bool { return l[i].c < l[j].c })
	for _, v := range l {
		h.Violation(v.layer, v.c, v.sig, v.what, v.wit)
	}
}

var deferred deferredList

func addStats(h *harness.H, st *stats) {
	h.Count("ops", st.Ops)
	h.Count("define_rel_accepted", st.DefrelOK)
	h.Count("define_rel_refused_cycle_or_self", st.DefrelCycle)
	h.Count("define_rel_refused_missing_endpoint", st.DefrelMissing)
	h.Count("define_rel_noop_existing", st.DefrelNoop)
	h.Count("define_rel_many_accepted", st.DefmanyOK)
	h.Count("define_rel_many_refused", st.DefmanyRefused)
	h.Count("delete_resource_with_edges", st.DelresWithEdges)
	h.Count("traversals_compared", st.Traversals)
	h.Count("traversals_compared_nonempty", st.TraversalsNonEmpty)
	h.Count("raw_table_scans", st.RawScans)
	h.Count("tx_commits", st.Commits)
	h.Count("tx_aborts", st.Aborts)
	h.Seen("closure_depth", fmt.Sprint(st.MaxDepth))
	h.Seen("multi_parent_nodes", fmt.Sprint(st.MultiParent))
	h.Seen("peak_edges", fmt.Sprint(st.EdgesPeak))
}

func scriptKey(s script) string {
	var sb strings.Builder
	for _, o := range s.Ops {
		sb.WriteString(o.String())
		sb.WriteByte(';')
	}
	return sb.String()
}

func layerSeq(h *harness.H) {
	h.AddRule("seq: one case = one PRNG-generated history of 20-80 ontology operations (define/delete resource, define/delete relationship single and one-to-many over 4 relationship types, begin/commit/abort) over 4-11 identifiers drawn from a pool of prefix/suffix-related type:key strings; distinct = distinct operation script; non-trivial = at least one relationship accepted and at least one traversal compared against a non-empty expected set")
	h.Assume("one transaction is open at a time and nothing writes directly while it is open (the statement quantifies over operations inside committed and aborted transactions, not over concurrent writers)")
	h.Assume("identifiers are type:key strings over real resource types; keys may contain ':' but no identifier contains the relationship key separator '->'")
	h.Assume("a traversal that STARTS at a non-existent identifier may answer 'not found' instead of an empty result")
	h.Assume("DefineFromOneToManyRelationships with an empty target list: no outcome demanded")
	h.Assume("every history runs in a child process (fatal errors such as stack overflow are observations, classified from the child's stderr)")
	n := h.N(3000, 120000)
	parallel(h, "seq", n, func(w *worker, c int) {
		r := h.Rand("seq", c)
		s := genScript(r, h.Quick())
		h.Eval()
		fs, stv := w.exec(h, s)
		st := &stv
		addStats(h, st)
		if st.DefrelOK+st.DefmanyOK > 0 && st.TraversalsNonEmpty > 0 {
			h.Distinct(scriptKey(s))
		}
		if c < 4 {
			var lines []string
			for _, o := range s.Ops {
				lines = append(lines, o.String())
			}
			h.Sample(map[string]any{"layer": "seq", "case": c, "ids": s.IDs, "missing_id": s.Miss, "script": lines})
		}
		if len(fs) > 0 {
			reportFindings(h, w, "seq", c, s, fs)
		}
	})
}

// layerPairs enumerates, for every ordered pair (a, b) of pool identifiers and a third
// identifier x, the small shapes in which identifier-string confusion would show: an edge
// from b, then an edge into a (and the mirror image), self edges, delete of a with edges on
// b. The oracle is the same reference model; nothing is special-cased.
func layerPairs(h *harness.H) {
	h.AddRule("pairs: exhaustive enumeration of (a,b,x) identifier triples from the pool x 4 fixed small shapes x {direct, committed tx, aborted tx}; distinct = distinct script; non-trivial as in seq")
	type cs struct {
		s script
	}
	var cases []cs
	ids := pool
	related := func(a, b string) bool {
		return strings.HasPrefix(a, b) || strings.HasPrefix(b, a) || strings.HasSuffix(a, b) || strings.HasSuffix(b, a) ||
			(typeOf(a) != typeOf(b) && (strings.HasPrefix(typeOf(a), typeOf(b)) || strings.HasPrefix(typeOf(b), typeOf(a))))
	}
	for _, a := range ids {
		for _, b := range ids {
			if a == b {
				continue
			}
			// quick tier: only identifier pairs that are prefix/suffix related, three third parties
			if h.Quick() && !related(a, b) {
				continue
			}
			nx := 0
			for _, x := range ids {
				if x == a || x == b {
					continue
				}
				nx++
				if h.Quick() && nx%5 != 1 {
					continue
				}
				for shape := 0; shape < 4; shape++ {
					for mode := 0; mode < 3; mode++ {
						var ops []op
						def := op{K: "defmany", IDs: []string{a, b, x}}
						switch shape {
						case 0: // b -> x ; then x -> a must be accepted ; a -> a refused
							ops = []op{def, {K: "defrel", From: b, Typ: "parent", To: x}, {K: "defrel", From: x, Typ: "parent", To: a}, {K: "defrel", From: a, Typ: "parent", To: a}}
						case 1: // x -> b ; delete a ; x -> b must survive ; b -> x refused (cycle)
							ops = []op{def, {K: "defrel", From: x, Typ: "parent", To: b}, {K: "defrel", From: a, Typ: "parent", To: x}, {K: "delres", IDs: []string{a}}, {K: "defrel", From: b, Typ: "par", To: x}}
						case 2: // b -> x (other type) ; one-to-many x -> [a] accepted; x -> [x] refused
							ops = []op{def, {K: "defrel", From: b, Typ: "labeled_by", To: x}, {K: "defrelmany", From: x, Typ: "parent", IDs: []string{a}}, {K: "defrelmany", From: x, Typ: "parent", IDs: []string{a, x}}}
						case 3: // typed deletes: out-edges of a of type par must not take b's or type parent's
							ops = []op{def, {K: "defrel", From: a, Typ: "parent", To: x}, {K: "defrel", From: b, Typ: "par", To: x}, {K: "defrel", From: a, Typ: "par", To: b},
								{K: "delout", From: a, Typ: "par"}, {K: "delin", To: x, Typ: "par"}, {K: "defrel", From: x, Typ: "parent", To: b}}
						}
						switch mode {
						case 1:
							ops = append(append([]op{ops[0], {K: "begin"}}, ops[1:]...), op{K: "commit"})
						case 2:
							ops = append(append([]op{ops[0], {K: "begin"}}, ops[1:]...), op{K: "abort"})
						}
						obs := uniqSorted([]string{a, b, x})
						cases = append(cases, cs{script{IDs: obs, Miss: "range:never", Ops: ops}})
					}
				}
			}
		}
	}
	parallel(h, "pairs", len(cases), func(w *worker, c int) {
		s := cases[c].s
		h.Eval()
		fs, stv := w.exec(h, s)
		st := &stv
		addStats(h, st)
		if st.DefrelOK+st.DefmanyOK > 0 && st.TraversalsNonEmpty > 0 {
			h.Distinct(scriptKey(s))
		}
		if len(fs) > 0 {
			reportFindings(h, w, "pairs", c, s, fs)
		}
	})
}

// parallel runs f over cases [0,n) on a worker pool; each case is independent (own PRNG,
// own database) and reports through the thread-safe harness.
func parallel(h *harness.H, layer string, n int, f func(w *worker, c int)) {
	workers := runtime.GOMAXPROCS(0)
	if _, rep := h.Replaying(); rep {
		workers = 1
	}
	var wg sync.WaitGroup
	ch := make(chan int, 64)
	for i := 0; i < workers; i++ {
		wg.Add(1)
		go func(i int) {
			defer wg.Done()
			w := newWorker(i)
			defer w.close()
			for c := range ch {
				f(w, c)
			}
		}(i)
	}
	for c := 0; c < n; c++ {
		if h.Skip(layer, c) {
			continue
		}
		ch <- c
	}
	close(ch)
	wg.Wait()
	deferred.flush(h)
}
