package main

// Process isolation. Executing a generated history against the real ontology can end the
// process (the first quick run died with "fatal error: stack overflow" inside
// dagWriter.retrieveDescendants, which recover() cannot see). Every history therefore runs
// in a child: the same binary re-executed with VERIF_C16_CHILD=1, serving scripts from
// stdin (one JSON line each) and answering with one JSON line. The parent writes the script
// to $VERIF_REPLAY_DIR/C16/inflight-<worker>.json BEFORE handing it over; if the child dies
// the death itself is the observation (stderr is kept and classified) and a new child is
// started for the next script.

import (
	"bufio"
	"bytes"
	"encoding/json"
	"fmt"
	"io"
	"os"
	"os/exec"
	"path/filepath"
	"regexp"
	"runtime/debug"
	"strings"
	"sync"
	"time"
)

type request struct {
	IDs  []string `json:"ids"`
	Miss string   `json:"miss"`
	Ops  []op     `json:"ops"`
}

type response struct {
	Findings []finding `json:"findings"`
	Stats    stats     `json:"stats"`
}

func childMain() {
	// Legitimate recursion here is a few dozen frames deep; a small limit turns runaway
	// recursion into a fast, small crash instead of a 1 GB one.
	debug.SetMaxStack(4 << 20)
	in := bufio.NewReaderSize(os.Stdin, 1<<20)
	out := bufio.NewWriter(os.Stdout)
	for {
		line, err := in.ReadBytes('\n')
		if len(line) > 0 {
			var rq request
			if jErr := json.Unmarshal(line, &rq); jErr != nil {
				fmt.Fprintf(os.Stderr, "child: bad request: %v\n", jErr)
				os.Exit(3)
			}
			var rs response
			rs.Findings = runScript(rq.IDs, rq.Miss, rq.Ops, &rs.Stats)
			b, _ := json.Marshal(rs)
			out.Write(b)
			out.WriteByte('\n')
			out.Flush()
		}
		if err != nil {
			return
		}
	}
}

type server struct {
	id     int
	cmd    *exec.Cmd
	stdin  io.WriteCloser
	stdout *bufio.Reader
	stderr *bytes.Buffer
}

func startServer(id int) (*server, error) {
	cmd := exec.Command(os.Args[0])
	cmd.Env = append(os.Environ(), "VERIF_C16_CHILD=1", "GOTRACEBACK=single", "GOMAXPROCS=4")
	stdin, err := cmd.StdinPipe()
	if err != nil {
		return nil, err
	}
	stdout, err := cmd.StdoutPipe()
	if err != nil {
		return nil, err
	}
	s := &server{id: id, cmd: cmd, stdin: stdin, stdout: bufio.NewReaderSize(stdout, 1<<20), stderr: &bytes.Buffer{}}
	cmd.Stderr = &capWriter{buf: s.stderr, max: 256 << 10}
	if err := cmd.Start(); err != nil {
		return nil, err
	}
	return s, nil
}

type capWriter struct {
	mu  sync.Mutex
	buf *bytes.Buffer
	max int
}

func (c *capWriter) Write(p []byte) (int, error) {
	c.mu.Lock()
	defer c.mu.Unlock()
	if room := c.max - c.buf.Len(); room > 0 {
		if len(p) < room {
			room = len(p)
		}
		c.buf.Write(p[:room])
	}
	return len(p), nil
}

func (c *capWriter) String() string {
	c.mu.Lock()
	defer c.mu.Unlock()
	return c.buf.String()
}

func (s *server) stop() {
	if s == nil || s.cmd == nil {
		return
	}
	_ = s.stdin.Close()
	done := make(chan struct{})
	go func() { _ = s.cmd.Wait(); close(done) }()
	select {
	case <-done:
	case <-time.After(10 * time.Second):
		_ = s.cmd.Process.Kill()
		<-done
	}
	s.cmd = nil
}

// death describes how a child ended while a script was in flight.
type death struct {
	Class  string `json:"class"`  // stable classifier used in the signature
	Detail string `json:"detail"` // first lines of the child's stderr
}

var reFrame = regexp.MustCompile(`(?m)^(github\.com/synnaxlabs/[^\s(]+)\(`)

func classifyDeath(stderr string, timedOut bool) death {
	if timedOut {
		return death{Class: "timeout", Detail: "no answer within the watchdog"}
	}
	lines := strings.Split(stderr, "\n")
	head := lines
	if len(head) > 6 {
		head = head[:6]
	}
	d := death{Detail: strings.Join(head, " | ")}
	kind := "exit"
	switch {
	case strings.Contains(stderr, "fatal error: stack overflow"):
		kind = "stack-overflow"
	case strings.Contains(stderr, "fatal error: out of memory"), strings.Contains(stderr, "cannot allocate memory"):
		kind = "out-of-memory"
	case strings.Contains(stderr, "fatal error:"):
		kind = "fatal-error"
	case strings.Contains(stderr, "panic:"):
		kind = "panic"
	}
	// the ontology function that occurs most often in the dying goroutine's stack (for a
	// runaway recursion: the recursion site, whatever leaf happened to hit the limit)
	fn := ""
	freq := map[string]int{}
	for _, m := range reFrame.FindAllStringSubmatch(stderr, -1) {
		f := m[1]
		if i := strings.LastIndex(f, "/ontology."); i >= 0 {
			name := f[i+len("/ontology."):]
			freq[name]++
			if freq[name] > freq[fn] || fn == "" {
				fn = name
			}
		}
	}
	if fn == "" {
		fn = "unknown-site"
	}
	d.Class = kind + ":" + fn
	return d
}

// worker owns one child at a time.
type worker struct {
	id  int
	srv *server
	dir string
}

func newWorker(id int) *worker {
	dir := filepath.Join(os.Getenv("VERIF_REPLAY_DIR"), "C16")
	if os.Getenv("VERIF_REPLAY_DIR") == "" {
		dir = filepath.Join("/verif", "replays", "C16")
	}
	_ = os.MkdirAll(dir, 0o755)
	return &worker{id: id, dir: dir}
}

func (w *worker) inflight() string {
	return filepath.Join(w.dir, fmt.Sprintf("inflight-%d-w%d.json", os.Getpid(), w.id))
}

func (w *worker) close() {
	w.srv.stop()
	w.srv = nil
	_ = os.Remove(w.inflight())
}

const childWatchdog = 30 * time.Second

// run executes one script in the child. died != nil means the child ended (or hung) while
// the script was in flight; err != nil means the harness itself is broken.
func (w *worker) run(s script) (rs response, died *death, err error) {
	if w.srv == nil {
		if w.srv, err = startServer(w.id); err != nil {
			return rs, nil, err
		}
	}
	b, _ := json.Marshal(request{IDs: s.IDs, Miss: s.Miss, Ops: s.Ops})
	if wErr := os.WriteFile(w.inflight(), b, 0o644); wErr != nil {
		return rs, nil, wErr
	}
	type ans struct {
		line []byte
		err  error
	}
	ch := make(chan ans, 1)
	srv := w.srv
	go func() {
		if _, wErr := srv.stdin.Write(append(b, '\n')); wErr != nil {
			ch <- ans{nil, wErr}
			return
		}
		line, rErr := srv.stdout.ReadBytes('\n')
		ch <- ans{line, rErr}
	}()
	var a ans
	timedOut := false
	select {
	case a = <-ch:
	case <-time.After(childWatchdog):
		timedOut = true
		_ = srv.cmd.Process.Kill()
		a = <-ch
	}
	if a.err == nil {
		if jErr := json.Unmarshal(a.line, &rs); jErr != nil {
			return rs, nil, fmt.Errorf("child answered garbage: %v: %q", jErr, string(a.line))
		}
		return rs, nil, nil
	}
	// the child is gone
	_ = srv.stdin.Close()
	_ = srv.cmd.Wait()
	d := classifyDeath(srv.cmd.Stderr.(*capWriter).String(), timedOut)
	w.srv = nil
	return rs, &d, nil
}
