package main

import (
	"fmt"

	"github.com/synnaxlabs/synnax/pkg/distribution/channel"
	"github.com/synnaxlabs/synnax/pkg/distribution/node"
	"verif/lib/prng"
)

var (
	fixedTypes   = []string{"float64", "float32", "int64", "int32", "uint8"}
	varTypes     = []string{"string", "json"}
	invalidNames = []string{"", "1starts_with_digit", "has space", "has-dash", "déjà", "dot.ted"}
	poolNames    = []string{"p0", "p1", "p2", "p0_time", "p1_time", "P0"}
)

func (hs *history) freshName() string {
	hs.fresh++
	return fmt.Sprintf("c%d_%d", hs.c, hs.fresh)
}

func (hs *history) userChannels() []channel.Channel {
	var out []channel.Channel
	for _, ch := range hs.sortedMeta() {
		if !ch.Internal {
			out = append(out, ch)
		}
	}
	return out
}

func (hs *history) genStep() step {
	r := hs.r
	st := step{Via: uint16(prng.Pick(r, hs.nodes)), Tx: r.Chance(7, 10)}
	users := hs.userChannels()
	if hs.restarts && r.Chance(4, 100) {
		st.Op = "restart"
		st.Tx = true
		return st
	}
	x := r.Intn(100)
	switch {
	case len(users) == 0 || x < 50:
		hs.genCreate(&st, users)
	case x < 70:
		hs.genRename(&st, users)
	default:
		hs.genDelete(&st, users)
	}
	return st
}

func (hs *history) pickName(i int, st *step, users []channel.Channel, forCalc bool) (string, string) {
	r := hs.r
	x := r.Intn(100)
	switch {
	case x < 70:
		return hs.freshName(), "fresh"
	case x < 82 && len(users) > 0:
		ch := prng.Pick(r, users)
		if forCalc && r.Bool() {
			// a name whose auto-created index name ("<name>_time") may already be taken
			if len(ch.Name) > 5 && ch.Name[len(ch.Name)-5:] == "_time" {
				return ch.Name[:len(ch.Name)-5], "existing-time-base"
			}
			return ch.Name, "existing"
		}
		if r.Chance(1, 4) {
			return ch.Name + "_time", "existing-plus-time"
		}
		return ch.Name, "existing"
	case x < 88:
		return prng.Pick(r, invalidNames), "invalid"
	case x < 94 && i > 0:
		return st.Chans[r.Intn(i)].Name, "dup-in-req"
	default:
		return prng.Pick(r, poolNames), "pool"
	}
}

func (hs *history) genCreate(st *step, users []channel.Channel) {
	r := hs.r
	st.Op = "create"
	// RetrieveIfNameExists / Overwrite resolve existing channels by name, which presumes
	// that names identify channels; they are only exercised with name validation on.
	switch x := r.Intn(100); {
	case x < 70 || !hs.validate:
	case x < 85:
		st.Retrieve = true
	case x < 95:
		st.Overwrite = true
	default:
		st.Retrieve, st.Overwrite = true, true
	}
	var indexes []channel.Channel
	for _, ch := range users {
		if ch.IsIndex && !ch.Virtual && !ch.Free() {
			indexes = append(indexes, ch)
		}
	}
	n := r.Range(1, 4)
	for i := 0; i < n; i++ {
		rc := reqChan{}
		switch x := r.Intn(100); {
		case x < 22:
			rc.Kind = "index"
		case x < 44:
			rc.Kind = "data-fixed"
		case x < 55:
			rc.Kind = "data-var"
		case x < 70:
			rc.Kind = "virtual"
		case x < 82:
			rc.Kind = "free"
		case x < 92:
			rc.Kind = "calc"
		default:
			rc.Kind = "index"
		}
		if (rc.Kind == "data-fixed" || rc.Kind == "data-var") && len(indexes) == 0 && !r.Chance(1, 6) {
			rc.Kind = "index"
		}
		rc.Name, rc.NameClass = hs.pickName(i, st, users, rc.Kind == "calc")
		if (rc.Kind == "virtual" || rc.Kind == "index") && r.Chance(1, 12) {
			// a system channel made after user channels: its key sorts after theirs
			rc.Internal = true
		}
		switch rc.Kind {
		case "index":
			rc.DataType = "timestamp"
			rc.Lease = hs.pickLease()
		case "data-fixed", "data-var":
			if rc.Kind == "data-fixed" {
				rc.DataType = prng.Pick(r, fixedTypes)
			} else {
				rc.DataType = prng.Pick(r, varTypes)
			}
			y := r.Intn(100)
			inBatch, predicted := hs.inBatchIndex(st)
			switch {
			case inBatch >= 0 && r.Chance(1, 3):
				// The index is created by this very request: the client names it by the key
				// it is about to get (next value of the leaseholder's counter). A wrong guess
				// is just a failing request.
				rc.Fault = "in-batch-index"
				rc.LocalIndex = predicted
				rc.Lease = st.Chans[inBatch].Lease
				if r.Chance(1, 2) {
					// ... and a later channel of the same request is refused by the engine
					st.Chans = append(st.Chans, rc)
					rc = reqChan{Kind: "data-fixed", DataType: prng.Pick(r, fixedTypes), Fault: "missing-index",
						LocalIndex: uint32(900000 + r.Intn(1000)), Lease: rc.Lease}
					rc.Name, rc.NameClass = hs.freshName(), "fresh"
				}
			case len(indexes) == 0 || y < 8:
				rc.Fault = "missing-index"
				rc.LocalIndex = uint32(900000 + r.Intn(1000))
				rc.Lease = hs.pickLease()
			case y < 16 && hs.nNodes > 1:
				idx := prng.Pick(r, indexes)
				rc.Fault = "foreign-index"
				rc.LocalIndex = uint32(idx.LocalKey)
				for {
					l := prng.Pick(r, hs.nodes)
					if l != idx.Leaseholder {
						rc.Lease = uint16(l)
						break
					}
				}
			default:
				idx := prng.Pick(r, indexes)
				rc.LocalIndex = uint32(idx.LocalKey)
				rc.Lease = uint16(idx.Leaseholder)
			}
		case "virtual":
			rc.DataType = prng.Pick(r, append(append([]string{}, fixedTypes...), varTypes...))
			rc.Lease = hs.pickLease()
		case "free":
			rc.DataType = prng.Pick(r, append(append([]string{}, fixedTypes...), varTypes...))
			rc.Lease = uint16(node.KeyFree)
			// occasionally an update-through-create of an existing free channel
			if r.Chance(1, 6) {
				for _, ch := range users {
					if ch.Free() && !ch.IsCalculated() && !ch.IsIndex {
						rc.LocalKey = uint32(ch.LocalKey)
						rc.DataType = string(ch.DataType)
						break
					}
				}
			}
		case "calc":
			rc.DataType = prng.Pick(r, []string{"float64", "float32"})
		}
		st.Chans = append(st.Chans, rc)
	}
}

// inBatchIndex finds an index channel earlier in the request under construction and the
// local key it should be given: keys are handed out in request order from the
// leaseholder's counter, whose last value is the largest local key ever seen on it.
func (hs *history) inBatchIndex(st *step) (int, uint32) {
	eff := func(l uint16) uint16 {
		if l == 0 {
			return st.Via
		}
		return l
	}
	for i := len(st.Chans) - 1; i >= 0; i-- {
		if st.Chans[i].Kind != "index" {
			continue
		}
		lease := eff(st.Chans[i].Lease)
		last := uint32(0)
		for k := range hs.everSeen {
			if uint16(k.Leaseholder()) == lease && uint32(k.LocalKey()) > last {
				last = uint32(k.LocalKey())
			}
		}
		pos := uint32(0)
		for j := 0; j <= i; j++ {
			c := st.Chans[j]
			if c.Kind != "free" && c.Kind != "calc" && eff(c.Lease) == lease {
				pos++
			}
		}
		return i, last + pos
	}
	return -1, 0
}

func (hs *history) pickLease() uint16 {
	if hs.r.Chance(1, 5) {
		return 0
	}
	return uint16(prng.Pick(hs.r, hs.nodes))
}

func (hs *history) someGoneKey() (channel.Key, bool) {
	ks := make([]channel.Key, 0, len(hs.deleted))
	for k := range hs.deleted {
		ks = append(ks, k)
	}
	if len(ks) == 0 {
		return 0, false
	}
	sortKeys(ks)
	return prng.Pick(hs.r, ks), true
}

func (hs *history) pickTargets(users []channel.Channel, max int) []channel.Channel {
	r := hs.r
	n := r.Range(1, max)
	if n > len(users) {
		n = len(users)
	}
	cp := append([]channel.Channel(nil), users...)
	prng.Shuffle(r, cp)
	return cp[:n]
}

func (hs *history) genRename(st *step, users []channel.Channel) {
	r := hs.r
	st.Op = "rename"
	for i, ch := range hs.pickTargets(users, 3) {
		st.Keys = append(st.Keys, uint32(ch.Key()))
		var nm string
		past := hs.pastNames[ch.Key()]
		switch x := r.Intn(100); {
		case x < 20 && len(past) > 0:
			// back to a name the channel had before (e.g. the one it was created with)
			nm = prng.Pick(r, past)
		case x < 70:
			nm = hs.freshName()
		case x < 82:
			nm = prng.Pick(r, users).Name
		case x < 90:
			nm = prng.Pick(r, invalidNames)
		case x < 95 && i > 0:
			nm = st.Names[r.Intn(i)]
		default:
			nm = prng.Pick(r, poolNames)
		}
		st.Names = append(st.Names, nm)
		if hs.pastNames == nil {
			hs.pastNames = map[channel.Key][]string{}
		}
		if len(past) == 0 || past[len(past)-1] != ch.Name {
			hs.pastNames[ch.Key()] = append(past, ch.Name)
		}
	}
	if r.Chance(8, 100) {
		if k, ok := hs.someGoneKey(); ok {
			st.Keys = append(st.Keys, uint32(k))
		} else {
			st.Keys = append(st.Keys, uint32(channel.NewKey(prng.Pick(r, hs.nodes), 777777)))
		}
		st.Names = append(st.Names, hs.freshName())
	}
	if r.Chance(8, 100) {
		// an internal channel (refused) after the valid entries, preferably one leased by
		// the node that serves the request: then the whole batch is one gateway batch
		var pick *channel.Channel
		var here, any []channel.Channel
		for _, ch := range hs.sortedMeta() {
			if ch.Internal {
				any = append(any, ch)
				if ch.Leaseholder == node.Key(st.Via) {
					here = append(here, ch)
				}
			}
		}
		if len(here) > 0 {
			c := prng.Pick(r, here)
			pick = &c
		} else if len(any) > 0 {
			c := prng.Pick(r, any)
			pick = &c
		}
		if pick != nil {
			hs.h.Count("rename_batches_ending_in_an_internal_channel", 1)
			st.Keys = append(st.Keys, uint32(pick.Key()))
			st.Names = append(st.Names, hs.freshName())
		}
	}
}

func (hs *history) genDelete(st *step, users []channel.Channel) {
	r := hs.r
	targets := hs.pickTargets(users, 3)
	if r.Chance(3, 10) {
		st.Op = "delete-names"
		for _, ch := range targets {
			st.Names = append(st.Names, ch.Name)
		}
		if r.Chance(1, 10) {
			st.Names = append(st.Names, hs.freshName())
		}
		return
	}
	st.Op = "delete"
	for _, ch := range targets {
		st.Keys = append(st.Keys, uint32(ch.Key()))
	}
	if r.Chance(8, 100) {
		if k, ok := hs.someGoneKey(); ok {
			st.Keys = append(st.Keys, uint32(k))
		} else {
			st.Keys = append(st.Keys, uint32(channel.NewKey(prng.Pick(r, hs.nodes), 777777)))
		}
	}
	if r.Chance(4, 100) {
		for _, ch := range hs.sortedMeta() {
			if ch.Internal {
				st.Keys = append(st.Keys, uint32(ch.Key()))
				break
			}
		}
	}
}
