// C15 — Channel keys are unique and metadata always matches the storage engines.
//
// Workload: histories of batched create / rename / delete requests issued through
// PRNG-chosen nodes of 1-3 node in-memory clusters (core/pkg/distribution/mock), with
// failing entries placed inside batches. Oracle: after every step (at a quiescent point:
// every node's metadata view equal) the monitor sweeps both stores — cluster metadata
// (channel.Service.NewRetrieve) and every node's time-series engine (Storage.TS) — and
// checks the statement: keys unique / lease-embedding / never reused, names valid and
// unique with validation on, metadata == leaseholder engines field by field, deleted
// channels unusable at both layers.
package main

import (
	"context"
	"fmt"
	"os"
	"runtime"
	"runtime/debug"
	"sync"
	"time"

	"github.com/onsi/gomega"
	"verif/lib/harness"
)

func main() {
	// mock.ProvisionCluster uses gomega.Eventually; outside ginkgo a fail handler must
	// be registered. A failure there is a broken harness, not a verdict.
	gomega.RegisterFailHandler(func(m string, _ ...int) { panic("gomega: " + m) })
	gomega.SetDefaultEventuallyTimeout(20 * time.Second)
	gomega.SetDefaultEventuallyPollingInterval(2 * time.Millisecond)
	harness.Main("C15", "exploration",
		harness.Layer{Name: "min", Run: layerMin},
		harness.Layer{Name: "hist", Run: layerHist},
	)
}

// layerHist runs the histories. Cases are independent clusters, run on a worker pool;
// each case's PRNG is a function of (seed, case#) only.
func layerHist(h *harness.H) {
	h.AddRule("hist: one case = one cluster (1-3 nodes, name validation on/off) + a PRNG history of 10-40 batched " +
		"create/rename/delete requests (tx and non-tx entry points, failing entries inside batches; thorough: also restarts of a node's distribution layer over its storage); " +
		"distinct = hash of the request shapes; non-trivial = at least one successful create and one " +
		"successful rename or delete, and >= 1 user channel compared across metadata and engine")
	h.Assume("metadata on non-leaseholder nodes is eventually consistent (aspen gossip): the sweep is taken at a " +
		"quiescent point where every node's full channel listing is equal; not reaching one within the watchdog is inconclusive")
	h.Assume("engine contents are enumerated by probing RetrieveChannel for every (node id, local key) up to the largest " +
		"key observed plus the number of channels ever attempted, on every node's engine")
	n := h.N(200, 4000)
	workers := runtime.GOMAXPROCS(0)
	if workers > 12 {
		workers = 12
	}
	if _, rp := h.Replaying(); rp {
		workers = 1
	}
	pool(h, "hist", n, workers, func(c int) {
		h.Eval()
		ctx, cancel := context.WithCancel(context.Background())
		defer cancel()
		hs := newRandomHistory(h, c, h.Rand("hist", c))
		hs.restarts = h.Thorough() || os.Getenv("VERIF_C15_RESTARTS") == "1"
		hs.run(ctx)
	})
}

// layerMin runs the enumerated scripted scenarios (scenarios.go).
func layerMin(h *harness.H) {
	h.AddRule("min: one case = one enumerated scripted scenario (lifecycle / retrieve-if-exists create batches mixing existing and new names, then further creates and a delete + create / failing create batch / failing delete batch / failing rename batch with and without a transaction / " +
		"overwrite / name collision) over kind x leaseholder x gateway x entry point on a fresh cluster; distinct = scenario name; " +
		"non-trivial = at least one successful create and >= 1 user channel compared across metadata and engine")
	scs := buildScenarios(h.Thorough())
	workers := runtime.GOMAXPROCS(0)
	if workers > 12 {
		workers = 12
	}
	if _, rp := h.Replaying(); rp {
		workers = 1
	}
	h.Count("min_scenarios", len(scs))
	pool(h, "min", len(scs), workers, func(c int) {
		h.Eval()
		ctx, cancel := context.WithCancel(context.Background())
		defer cancel()
		sc := scs[c]
		hs := newHistory(h, "min", c, h.Rand("min", c))
		hs.nNodes, hs.validate, hs.script, hs.nSteps, hs.scenario = sc.nodes, true, sc.steps, len(sc.steps), sc.name
		hs.run(ctx)
	})
}

func pool(h *harness.H, layer string, n, workers int, f func(c int)) {
	var wg sync.WaitGroup
	cases := make(chan int)
	var mu sync.Mutex
	var failure any
	for w := 0; w < workers; w++ {
		wg.Add(1)
		go func() {
			defer wg.Done()
			for c := range cases {
				func() {
					defer func() {
						if r := recover(); r != nil {
							mu.Lock()
							if failure == nil {
								failure = fmt.Sprintf("%s case %d: %v\n%s", layer, c, r, debug.Stack())
							}
							mu.Unlock()
						}
					}()
					f(c)
				}()
			}
		}()
	}
	for c := 0; c < n; c++ {
		if h.Skip(layer, c) {
			continue
		}
		cases <- c
	}
	close(cases)
	wg.Wait()
	if failure != nil {
		panic(failure) // harness trouble, surfaced on the main goroutine (exit 2)
	}
}
