package main

import (
	"context"
	"fmt"
	"os"
	"path/filepath"
	"sort"
	"strings"
	"time"

	"github.com/synnaxlabs/cesium"
	"github.com/synnaxlabs/synnax/pkg/distribution"
	"github.com/synnaxlabs/synnax/pkg/distribution/channel"
	"github.com/synnaxlabs/synnax/pkg/distribution/framer/iterator"
	"github.com/synnaxlabs/synnax/pkg/distribution/framer/writer"
	"github.com/synnaxlabs/synnax/pkg/distribution/node"
	"github.com/synnaxlabs/x/gorp"
	"github.com/synnaxlabs/x/telem"
	xtypes "github.com/synnaxlabs/x/types"
	"verif/lib/harness"
	"verif/lib/prng"
)

// quiesceWatchdog bounds the wait for every node's metadata view to become equal. It is
// a watchdog only: hitting it yields an inconclusive note, never a verdict (normal
// convergence takes a few gossip rounds of 10 ms).
const quiesceWatchdog = 10 * time.Second

// reqChan is one requested channel of a create batch, written out for witnesses.
type reqChan struct {
	Kind       string `json:"kind"` // index data-fixed data-var virtual free calc
	Name       string `json:"name"`
	NameClass  string `json:"name_class,omitempty"` // fresh existing invalid dup-in-req pool ...
	Lease      uint16 `json:"lease"`                // 0 = unset (defaults to the gateway host)
	DataType   string `json:"data_type"`
	LocalIndex uint32 `json:"local_index,omitempty"`
	LocalKey   uint32 `json:"local_key,omitempty"`  // only for update-through-create of free channels
	Fault      string `json:"fault,omitempty"`      // missing-index foreign-index
	IndexName  string `json:"index_name,omitempty"` // scripted steps: resolve LocalIndex/Lease from this channel
	Internal   bool   `json:"internal,omitempty"`   // created with the Internal flag (renames/deletes of it are refused)
}

// step is one request of a history and its observed result.
type step struct {
	Op        string    `json:"op"` // create rename delete delete-names
	Via       uint16    `json:"via"`
	Tx        bool      `json:"tx"`
	Retrieve  bool      `json:"retrieve_if_name_exists,omitempty"`
	Overwrite bool      `json:"overwrite_if_different,omitempty"`
	Chans     []reqChan `json:"chans,omitempty"`
	Keys      []uint32  `json:"keys,omitempty"`
	KeyNames  []string  `json:"key_names,omitempty"` // scripted steps: keys of the channels with these names
	Names     []string  `json:"names,omitempty"`
	Err       string    `json:"err,omitempty"`
	Returned  []string  `json:"returned,omitempty"`
}

func (s step) descr() string {
	d := s.Op
	if s.Op == "delete-names" {
		d = "delete"
	}
	if s.Op == "create" && s.Overwrite {
		d = "overwrite-create"
	}
	if s.Err != "" {
		d = "failed-" + d
	}
	return d
}

type witness struct {
	Scenario      string `json:"scenario,omitempty"`
	Nodes         int    `json:"nodes"`
	ValidateNames bool   `json:"validate_names"`
	Steps         []step `json:"steps"`
}

type history struct {
	pastNames map[channel.Key][]string // generator: names a channel had before its renames
	h         *harness.H
	layer     string
	c         int
	r         *prng.R
	nNodes    int
	validate  bool
	nSteps    int
	script    []step // non-nil: scripted history (layer "min")
	scenario  string
	cluster   *cluster
	restarts  bool // generate restart steps (thorough tier)
	dead      bool // the history cannot continue (a restart failed)
	nodes     []node.Key
	steps     []step
	cur       *step // the request being executed / swept (included in witnesses)

	meta      map[channel.Key]channel.Channel // authoritative metadata at the last quiescent point
	everSeen  map[channel.Key]string          // every key ever observed/returned -> kind
	everMeta  map[channel.Key]bool            // keys that have been in metadata at some point
	leftAt    map[channel.Key]string          // key -> descr of the step after which it left metadata
	deleted   map[channel.Key]string          // keys named in a successful delete -> kind
	reported  map[string]bool                 // (key,problem) already reported
	tainted   map[channel.Key]bool            // keys excluded from further checks (already reported / failed non-tx request)
	stuck     map[channel.Key]bool            // keys whose metadata never converged across nodes
	newKeys   map[channel.Key]bool            // keys that entered metadata in the current step
	prevMeta  map[channel.Key]channel.Channel // metadata before the current step
	idxStuck  map[string]bool                 // "node|name": name-index lookups on that node never agreed with its own listing
	attempted int
	maxLocal  uint32
	fresh     int

	okCreate, okMut int
	compared        int
}

func noLimit(xtypes.Uint20) error { return nil }

func newHistory(h *harness.H, layer string, c int, r *prng.R) *history {
	return &history{h: h, layer: layer, c: c, r: r,
		everSeen: map[channel.Key]string{}, everMeta: map[channel.Key]bool{},
		leftAt: map[channel.Key]string{}, deleted: map[channel.Key]string{},
		reported: map[string]bool{}, tainted: map[channel.Key]bool{}, stuck: map[channel.Key]bool{}, idxStuck: map[string]bool{}}
}

func newRandomHistory(h *harness.H, c int, r *prng.R) *history {
	hs := newHistory(h, "hist", c, r)
	switch x := r.Intn(10); {
	case x < 2:
		hs.nNodes = 1
	case x < 5:
		hs.nNodes = 2
	default:
		hs.nNodes = 3
	}
	hs.validate = r.Chance(85, 100)
	hs.nSteps = r.Range(10, 40)
	return hs
}

func (hs *history) open(ctx context.Context) {
	v := hs.validate
	dir := ""
	if hs.restarts {
		// restarts need storage that survives a close: file-backed, under the build dir
		dir = filepath.Join(harness.Root(), ".build", "c15-storage", fmt.Sprintf("%d-%s-%d", os.Getpid(), hs.layer, hs.c))
	}
	hs.cluster = provisionCluster(ctx, hs.nNodes, distribution.LayerConfig{
		ValidateChannelNames:    &v,
		TestingIntOverflowCheck: noLimit,
	}, dir)
	for i := 1; i <= hs.nNodes; i++ {
		hs.nodes = append(hs.nodes, node.Key(i))
	}
}

func (hs *history) witness() witness {
	steps := append([]step(nil), hs.steps...)
	if hs.cur != nil {
		steps = append(steps, *hs.cur)
	}
	return witness{Scenario: hs.scenario, Nodes: hs.nNodes, ValidateNames: hs.validate, Steps: steps}
}

// violate reports a violation once per (key, problem) and taints the key so that
// follow-on effects of the same residual are not reported as further violations.
func (hs *history) violate(key channel.Key, problem, sig, what string) {
	id := fmt.Sprintf("%d|%s", key, problem)
	if hs.reported[id] {
		return
	}
	hs.reported[id] = true
	hs.tainted[key] = true
	hs.h.Violation(hs.layer, hs.c, sig, what, hs.witness())
}

func (hs *history) run(ctx context.Context) {
	hs.open(ctx)
	defer func() {
		if err := hs.cluster.Close(); err != nil {
			hs.h.Count("cluster_close_errors", 1)
		}
	}()
	hs.sweep(ctx, step{Op: "provision", Tx: true}, nil)
	var shape strings.Builder
	fmt.Fprintf(&shape, "%s n%d v%v|", hs.scenario, hs.nNodes, hs.validate)
	for i := 0; i < hs.nSteps; i++ {
		var st step
		if hs.script != nil {
			st = hs.resolve(hs.script[i])
		} else {
			st = hs.genStep()
		}
		fmt.Fprintf(&shape, "%s;", shapeOf(st))
		hs.cur = &st
		deletedNow := hs.exec(ctx, &st)
		hs.h.Count("steps", 1)
		if st.Err == "" {
			hs.h.Count("ops_ok_"+st.Op, 1)
		} else {
			hs.h.Count("ops_failed_"+st.Op, 1)
		}
		hs.h.Seen("op_shapes", fmt.Sprintf("%s tx=%v err=%v via-remote=%v", st.Op, st.Tx, st.Err != "", hs.touchesRemote(st)))
		if hs.dead {
			hs.steps = append(hs.steps, st)
			hs.cur = nil
			return
		}
		hs.sweep(ctx, st, deletedNow)
		if os.Getenv("VERIF_C15_DEBUG") != "" && strings.Contains(hs.scenario, os.Getenv("VERIF_C15_DEBUG")) {
			fmt.Fprintf(os.Stderr, "DEBUG %s step %d %s tx=%v keys=%v names=%v err=%q\n", hs.scenario, i, st.Op, st.Tx, st.Keys, st.Names, st.Err)
			for _, ch := range hs.sortedMeta() {
				fmt.Fprintf(os.Stderr, "DEBUG   meta %d %q internal=%v\n", ch.Key(), ch.Name, ch.Internal)
			}
		}
		hs.steps = append(hs.steps, st)
		hs.cur = nil
	}
	// Final re-check of every key ever successfully deleted.
	all := make([]channel.Key, 0, len(hs.deleted))
	for k := range hs.deleted {
		all = append(all, k)
	}
	sortKeys(all)
	hs.checkDeleted(ctx, step{Op: "final", Tx: true}, all)
	nontrivial := hs.okCreate > 0 && hs.compared > 0
	if hs.script == nil {
		nontrivial = nontrivial && hs.okMut > 0
	}
	if nontrivial {
		hs.h.Distinct(shape.String())
	}
	hs.h.Sample(hs.witness())
}

func (hs *history) last() step {
	if hs.cur != nil {
		return *hs.cur
	}
	if len(hs.steps) > 0 {
		return hs.steps[len(hs.steps)-1]
	}
	return step{Op: "provision"}
}

func (hs *history) touchesRemote(st step) bool {
	for _, rc := range st.Chans {
		if rc.Lease != 0 && rc.Lease != st.Via {
			return true
		}
	}
	for _, k := range st.Keys {
		if l := uint16(channel.Key(k).Leaseholder()); l != st.Via {
			return true
		}
	}
	return false
}

func shapeOf(st step) string {
	var b strings.Builder
	fmt.Fprintf(&b, "%s@%d tx%v r%v o%v", st.Op, st.Via, st.Tx, st.Retrieve, st.Overwrite)
	for _, rc := range st.Chans {
		fmt.Fprintf(&b, " %s/%d/%s/%s/%s", rc.Kind, rc.Lease, rc.NameClass, rc.Fault, rc.DataType)
	}
	for _, k := range st.Keys {
		fmt.Fprintf(&b, " k%d", k)
	}
	fmt.Fprintf(&b, " n%d", len(st.Names))
	return b.String()
}

func sortKeys(ks []channel.Key) { sort.Slice(ks, func(i, j int) bool { return ks[i] < ks[j] }) }

func (hs *history) sortedMeta() []channel.Channel {
	out := make([]channel.Channel, 0, len(hs.meta))
	for _, ch := range hs.meta {
		out = append(out, ch)
	}
	sort.Slice(out, func(i, j int) bool { return out[i].Key() < out[j].Key() })
	return out
}

func (hs *history) byName(name string) (channel.Channel, bool) {
	for _, ch := range hs.sortedMeta() {
		if ch.Name == name {
			return ch, true
		}
	}
	return channel.Channel{}, false
}

// resolve turns the symbolic references of a scripted step into keys.
func (hs *history) resolve(st step) step {
	st.Chans = append([]reqChan(nil), st.Chans...)
	for i, rc := range st.Chans {
		if rc.IndexName != "" {
			if idx, ok := hs.byName(rc.IndexName); ok {
				rc.LocalIndex = uint32(idx.LocalKey)
				if rc.Fault != "foreign-index" {
					rc.Lease = uint16(idx.Leaseholder)
				}
			}
		}
		st.Chans[i] = rc
	}
	names := st.Names
	if st.Op == "rename" {
		names = nil
	}
	for i, kn := range st.KeyNames {
		if ch, ok := hs.byName(kn); ok {
			st.Keys = append(st.Keys, uint32(ch.Key()))
			if st.Op == "rename" {
				names = append(names, st.Names[i])
			}
		}
	}
	st.Names = names
	return st
}

func kindOf(ch channel.Channel) string {
	switch {
	case ch.IsCalculated():
		return "calc"
	case ch.Free():
		if ch.IsIndex {
			return "free-index"
		}
		return "free"
	case ch.Virtual:
		return "virtual"
	case ch.IsIndex:
		return "index"
	case ch.DataType.IsVariable():
		return "data-var"
	default:
		return "data-fixed"
	}
}

func engineKind(ch cesium.Channel) string {
	switch {
	case ch.Virtual:
		return "virtual"
	case ch.IsIndex:
		return "index"
	case ch.DataType.IsVariable():
		return "data-var"
	default:
		return "data-fixed"
	}
}

// ---------------------------------------------------------------------------------
// execution of one step against the real services

func (hs *history) exec(ctx context.Context, st *step) (deletedNow []channel.Key) {
	n := hs.cluster.Nodes[node.Key(st.Via)]
	var err error
	call := func(f func(w channel.Writer) error) {
		defer func() {
			if r := recover(); r != nil {
				err = fmt.Errorf("PANIC: %v", r)
				hs.h.Inconclusive("panic-in-request")
				fmt.Printf("NOTE: C15 request panicked (%s): %v\n", st.Op, r)
			}
		}()
		if st.Tx {
			err = n.DB.WithTx(ctx, func(tx gorp.Tx) error { return f(n.Channel.NewWriter(tx)) })
		} else {
			err = f(n.Channel.NewWriter(nil))
		}
	}
	switch st.Op {
	case "restart":
		// close node Via's distribution layer and open it again over the same storage
		if rerr := hs.cluster.restart(ctx, node.Key(st.Via)); rerr != nil {
			st.Err = rerr.Error()
			hs.dead = true
			hs.h.Inconclusive("node-restart-failed")
			fmt.Printf("NOTE: C15 %s case %d: restarting node %d failed: %v\n", hs.layer, hs.c, st.Via, rerr)
			return nil
		}
		hs.h.Count("node_restarts", 1)
		return nil
	case "create":
		chs := make([]channel.Channel, len(st.Chans))
		for i, rc := range st.Chans {
			chs[i] = toChannel(rc)
		}
		hs.attempted += 2 * len(chs)
		var opts []channel.CreateOption
		if st.Retrieve {
			opts = append(opts, channel.RetrieveIfNameExists())
		}
		if st.Overwrite {
			opts = append(opts, channel.OverwriteIfNameExistsAndDifferentProperties())
		}
		call(func(w channel.Writer) error { return w.CreateMany(ctx, &chs, opts...) })
		if err == nil {
			hs.okCreate++
			hs.checkCreated(*st, chs)
			for _, ch := range chs {
				st.Returned = append(st.Returned, fmt.Sprintf("%s=%d", ch.Name, ch.Key()))
			}
			sort.Strings(st.Returned)
		}
	case "rename":
		keys := make(channel.Keys, len(st.Keys))
		for i, k := range st.Keys {
			keys[i] = channel.Key(k)
		}
		call(func(w channel.Writer) error { return w.RenameMany(ctx, keys, st.Names, false) })
		if err == nil {
			hs.okMut++
		}
	case "delete":
		keys := make(channel.Keys, len(st.Keys))
		for i, k := range st.Keys {
			keys[i] = channel.Key(k)
		}
		call(func(w channel.Writer) error { return w.DeleteMany(ctx, keys, false) })
		if err == nil {
			hs.okMut++
			deletedNow = keys
		}
	case "delete-names":
		// Which keys the names resolve to is decided on the metadata at the previous
		// quiescent point (the names used are literals: exact match).
		for _, ch := range hs.sortedMeta() {
			for _, nm := range st.Names {
				if ch.Name == nm {
					deletedNow = append(deletedNow, ch.Key())
				}
			}
		}
		call(func(w channel.Writer) error { return w.DeleteManyByNames(ctx, st.Names, false) })
		if err == nil {
			hs.okMut++
		} else {
			deletedNow = nil
		}
	}
	if err != nil {
		st.Err = err.Error()
		if len(st.Err) > 300 {
			st.Err = st.Err[:300]
		}
		if !st.Tx {
			// A failing request issued without a transaction cannot be rolled back by
			// construction; what it leaves behind is not judged. The keys it named are
			// excluded from further checks.
			hs.h.Count("failed_notx_requests", 1)
			for _, k := range st.Keys {
				// a refused rename may have taken effect for part of its batch, but at both
				// layers or at neither: its keys stay under the metadata = engine comparison
				if st.Op != "rename" {
					hs.tainted[channel.Key(k)] = true
				}
			}
			for _, nm := range st.Names {
				if ch, ok := hs.byName(nm); ok && st.Op == "delete-names" {
					hs.tainted[ch.Key()] = true
				}
			}
		}
	}
	for _, k := range deletedNow {
		kind := "unknown"
		if ch, ok := hs.meta[k]; ok {
			kind = kindOf(ch)
		} else if kd, ok := hs.everSeen[k]; ok {
			kind = kd
		}
		if _, ok := hs.deleted[k]; !ok {
			hs.deleted[k] = kind
		}
	}
	return deletedNow
}

func toChannel(rc reqChan) channel.Channel {
	ch := channel.Channel{
		Name:        rc.Name,
		Leaseholder: node.Key(rc.Lease),
		DataType:    telem.DataType(rc.DataType),
		LocalIndex:  channel.LocalKey(rc.LocalIndex),
		LocalKey:    channel.LocalKey(rc.LocalKey),
		Internal:    rc.Internal,
	}
	switch rc.Kind {
	case "index":
		ch.IsIndex = true
	case "virtual":
		ch.Virtual = true
	case "free":
		ch.Virtual = true
		ch.Leaseholder = node.KeyFree
	case "calc":
		ch.Expression = "return 1"
	}
	return ch
}

// checkCreated applies the key rules of the statement to the channels a successful
// create returned.
func (hs *history) checkCreated(st step, chs []channel.Channel) {
	d := st.descr()
	byKey := map[channel.Key]channel.Channel{}
	for _, ch := range chs {
		k := ch.Key()
		if other, dup := byKey[k]; dup && other.Name != ch.Name {
			hs.violate(k, "dup-in-batch", "c15:key-not-unique:within-batch:"+kindOf(ch),
				fmt.Sprintf("one create returned key %d for two different channels %q and %q", k, other.Name, ch.Name))
		}
		byKey[k] = ch
		if k.Leaseholder() != ch.Leaseholder {
			hs.violate(k, "lease-bits", "c15:key-lease-bits:"+kindOf(ch),
				fmt.Sprintf("returned channel %q has key %d (lease bits %d) but leaseholder field %d", ch.Name, k, k.Leaseholder(), ch.Leaseholder))
		}
		if k.LocalKey() == 0 {
			hs.violate(k, "zero-local", "c15:key-zero-local:"+kindOf(ch),
				fmt.Sprintf("successful create returned channel %q with local key 0 (key %d)", ch.Name, k))
		}
		_, seen := hs.everSeen[k]
		_, live := hs.meta[k]
		if seen && !live {
			hs.violate(k, "reused", "c15:key-reused-after-"+d+":"+kindOf(ch),
				fmt.Sprintf("create returned key %d for %q; that key was issued before and its channel no longer exists", k, ch.Name))
		}
		if seen && live {
			// Legitimate only as a retrieval/update of the live channel.
			retrieval := st.Retrieve || st.Overwrite
			for _, rc := range st.Chans {
				if rc.LocalKey != 0 && rc.Kind == "free" && channel.NewKey(node.KeyFree, channel.LocalKey(rc.LocalKey)) == k {
					retrieval = true
				}
			}
			if !retrieval {
				hs.violate(k, "not-unique", "c15:key-not-unique-after-"+d+":"+kindOf(ch),
					fmt.Sprintf("plain create returned key %d for %q, but that key already belongs to live channel %q", k, ch.Name, hs.meta[k].Name))
			}
		}
	}
	// The requested leaseholder must be the one embedded (calculated channels are free).
	for ri, rc := range st.Chans {
		ambiguous := false
		for oi, o := range st.Chans {
			if oi != ri && o.Name == rc.Name {
				ambiguous = true // same name requested twice: which result belongs to which request is unknowable
			}
		}
		if ambiguous {
			continue
		}
		want := node.Key(rc.Lease)
		switch rc.Kind {
		case "free", "calc":
			want = node.KeyFree
		default:
			if want == 0 {
				want = node.Key(st.Via)
			}
		}
		for _, ch := range chs {
			if ch.Name != rc.Name || kindOf(ch) != rc.Kind {
				continue
			}
			if _, live := hs.meta[ch.Key()]; live {
				continue // a retrieved pre-existing channel keeps its own lease
			}
			if ch.Key().Leaseholder() != want {
				hs.violate(ch.Key(), "wrong-lease", "c15:key-wrong-leaseholder:"+rc.Kind,
					fmt.Sprintf("channel %q requested on leaseholder %d got key %d embedding %d", rc.Name, want, ch.Key(), ch.Key().Leaseholder()))
			}
		}
	}
}

// ---------------------------------------------------------------------------------
// quiescent point + cross-store sweep

func (hs *history) listOn(ctx context.Context, nk node.Key) (map[channel.Key]channel.Channel, error) {
	var chs []channel.Channel
	if err := hs.cluster.Nodes[nk].Channel.NewRetrieve().Entries(&chs).Exec(ctx, nil); err != nil {
		return nil, err
	}
	m := make(map[channel.Key]channel.Channel, len(chs))
	for _, ch := range chs {
		m[ch.Key()] = ch
	}
	return m, nil
}

// diffKeys lists the keys on which two views differ.
func diffKeys(a, b map[channel.Key]channel.Channel) []channel.Key {
	var out []channel.Key
	for k, x := range a {
		if y, ok := b[k]; !ok || !x.Equals(y) {
			out = append(out, k)
		}
	}
	for k := range b {
		if _, ok := a[k]; !ok {
			out = append(out, k)
		}
	}
	return out
}

// home is the node whose view of a key is authoritative: the leaseholder, or the
// bootstrapper for free channels.
func home(k channel.Key) node.Key {
	if k.Free() {
		return node.KeyBootstrapper
	}
	return k.Leaseholder()
}

// quiesce waits until every node lists the same channels (ignoring keys already known to
// be stuck) and returns the authoritative view: each key as listed by its home node.
func (hs *history) quiesce(ctx context.Context) map[channel.Key]channel.Channel {
	deadline := time.Now().Add(quiesceWatchdog)
	for {
		views := map[node.Key]map[channel.Key]channel.Channel{}
		bad := map[channel.Key]bool{}
		for _, nk := range hs.nodes {
			m, err := hs.listOn(ctx, nk)
			if err != nil {
				panic(fmt.Sprintf("listing channels on node %d: %v", nk, err))
			}
			views[nk] = m
		}
		for _, nk := range hs.nodes[1:] {
			for _, k := range diffKeys(views[hs.nodes[0]], views[nk]) {
				if !hs.stuck[k] {
					bad[k] = true
				}
			}
		}
		timedOut := time.Now().After(deadline)
		if len(bad) == 0 || timedOut {
			if len(bad) > 0 {
				hs.h.Inconclusive("metadata-views-never-converged")
				hs.h.Count("stuck_keys", len(bad))
				ks := make([]channel.Key, 0, len(bad))
				for k := range bad {
					hs.stuck[k] = true
					ks = append(ks, k)
				}
				sortKeys(ks)
				last := hs.last()
				var detail strings.Builder
				for _, k := range ks {
					fmt.Fprintf(&detail, " key %d:", k)
					for _, nk := range hs.nodes {
						if ch, ok := views[nk][k]; ok {
							fmt.Fprintf(&detail, " n%d=%q", nk, ch.Name)
						} else {
							fmt.Fprintf(&detail, " n%d=absent", nk)
						}
					}
				}
				fmt.Printf("NOTE: C15 %s case %d: nodes' metadata views still differ %s after the last request (%s via node %d):%s; continuing on the leaseholders' views\n",
					hs.layer, hs.c, quiesceWatchdog, last.Op, last.Via, detail.String())
			}
			hs.quiesceNameIndex(ctx, views)
			auth := map[channel.Key]channel.Channel{}
			for _, nk := range hs.nodes {
				for k, ch := range views[nk] {
					if home(k) == nk || (int(home(k)) > hs.nNodes && nk == hs.nodes[0]) {
						auth[k] = ch
					}
				}
			}
			return auth
		}
		time.Sleep(2 * time.Millisecond)
	}
}

// nameIndexWatchdog bounds the wait for every node's name index (the structure name
// validation consults) to agree with that node's own channel listing. Index maintenance
// is an in-process asynchronous observer; it normally lags by microseconds.
const nameIndexWatchdog = 3 * time.Second

// quiesceNameIndex waits until, on every node, a by-name lookup of every current (and
// every just-removed) name returns exactly the keys that node's listing has under that
// name. A lookup that still disagrees when the watchdog fires is recorded (NOTE +
// inconclusive) and ignored from then on; the monitor keeps judging name uniqueness,
// because a duplicate name created after the full wait has no timing explanation.
func (hs *history) quiesceNameIndex(ctx context.Context, views map[node.Key]map[channel.Key]channel.Channel) {
	deadline := time.Now().Add(nameIndexWatchdog)
	for {
		var bad []string
		for _, nk := range hs.nodes {
			want := map[string]map[channel.Key]bool{}
			for k, ch := range views[nk] {
				if want[ch.Name] == nil {
					want[ch.Name] = map[channel.Key]bool{}
				}
				want[ch.Name][k] = true
			}
			for _, ch := range hs.meta { // names that may just have been removed/renamed away
				if want[ch.Name] == nil {
					want[ch.Name] = map[channel.Key]bool{}
				}
			}
			names := make([]string, 0, len(want))
			for nm := range want {
				names = append(names, nm)
			}
			sort.Strings(names)
			for _, nm := range names {
				id := fmt.Sprintf("%d|%s", nk, nm)
				if hs.idxStuck[id] || channel.ValidateName(nm) != nil {
					continue // non-literal names are matched by scan, not by the index
				}
				var got []channel.Channel
				err := hs.cluster.Nodes[nk].Channel.NewRetrieve().Where(channel.MatchNames(nm)).Entries(&got).Exec(ctx, nil)
				ok := err == nil && len(got) == len(want[nm])
				for _, g := range got {
					if !want[nm][g.Key()] {
						ok = false
					}
				}
				if !ok {
					bad = append(bad, id)
				}
			}
		}
		if len(bad) == 0 {
			return
		}
		if time.Now().After(deadline) {
			for _, id := range bad {
				hs.idxStuck[id] = true
			}
			hs.h.Inconclusive("name-index-never-agreed-with-listing")
			hs.h.Count("stale_name_index_entries", len(bad))
			last := hs.last()
			fmt.Printf("NOTE: C15 %s case %d: by-name lookups still disagree with the node's own listing %s after the last request (%s via node %d) for node|name %v\n",
				hs.layer, hs.c, nameIndexWatchdog, last.Op, last.Via, bad)
			return
		}
		time.Sleep(2 * time.Millisecond)
	}
}

type engineEntry struct {
	on node.Key
	ch cesium.Channel
}

func (hs *history) engineScan(ctx context.Context) map[channel.Key][]engineEntry {
	bound := hs.maxLocal + uint32(hs.attempted) + 8
	out := map[channel.Key][]engineEntry{}
	leases := append(append([]node.Key{}, hs.nodes...), node.KeyFree)
	for _, on := range hs.nodes {
		db := hs.cluster.Nodes[on].Storage.TS
		for _, l := range leases {
			for lk := uint32(1); lk <= bound; lk++ {
				k := channel.NewKey(l, channel.LocalKey(lk))
				ch, err := db.RetrieveChannel(ctx, k.StorageKey())
				hs.h.Count("engine_probes", 1)
				if err != nil {
					continue
				}
				out[k] = append(out[k], engineEntry{on: on, ch: ch})
				if lk > hs.maxLocal {
					hs.maxLocal = lk
					bound = hs.maxLocal + uint32(hs.attempted) + 8
				}
			}
		}
	}
	return out
}

// judged reports whether residuals first seen after this step are judged: everything
// after a successful request, and after a failing request only if it was transactional
// or a rename.
func (hs *history) judged(st step) bool {
	if st.Err == "" {
		return true
	}
	if !st.Tx && st.Op != "rename" {
		return false
	}
	// (a refused rename changes names at both layers or at neither, transaction or not:
	// the service updates the metadata rows of a gateway batch in one write before it
	// renames in the engine, which restores on failure)
	// A failing transactional request that names a channel the monitor has already
	// reported on (e.g. one that exists in metadata only) fails *because of* that
	// residual; what it leaves behind is a follow-on effect, not a new observation.
	for _, k := range st.Keys {
		if hs.tainted[channel.Key(k)] {
			return false
		}
	}
	for _, rc := range st.Chans {
		if rc.LocalIndex != 0 && hs.tainted[channel.NewKey(node.Key(rc.Lease), channel.LocalKey(rc.LocalIndex))] {
			return false
		}
	}
	for _, nm := range st.Names {
		if st.Op == "delete-names" {
			for k, ch := range hs.prevMeta {
				if ch.Name == nm && hs.tainted[k] {
					return false
				}
			}
		}
	}
	return true
}

func (hs *history) flag(st step, key channel.Key, problem, sig, what string) {
	if hs.tainted[key] {
		return
	}
	if !hs.judged(st) {
		hs.tainted[key] = true
		hs.h.Count("residuals_not_judged", 1)
		return
	}
	hs.violate(key, problem, sig, what)
}

// sweep waits for a quiescent point and compares the two stores.
func (hs *history) sweep(ctx context.Context, st step, deletedNow []channel.Key) {
	m := hs.quiesce(ctx)
	d := st.descr()
	prev := hs.meta
	hs.prevMeta = prev
	hs.meta = m
	hs.newKeys = map[channel.Key]bool{}
	for k := range prev {
		if _, still := m[k]; !still {
			hs.leftAt[k] = d
		}
	}
	for k, ch := range m {
		if k.LocalKey() > channel.LocalKey(hs.maxLocal) {
			hs.maxLocal = uint32(k.LocalKey())
		}
		if _, was := prev[k]; !was && prev != nil {
			hs.newKeys[k] = true
			if hs.everMeta[k] {
				hs.flag(st, k, "reappeared", "c15:key-reused-after-"+d+":"+kindOf(ch),
					fmt.Sprintf("key %d (%q) is in metadata again after having been removed earlier", k, ch.Name))
			}
		}
		hs.everMeta[k] = true
		hs.everSeen[k] = kindOf(ch)
	}
	eng := hs.engineScan(ctx)
	hs.h.Count("sweeps", 1)

	// metadata -> engine
	for _, ch := range hs.sortedMeta() {
		k := ch.Key()
		if ch.Leaseholder != k.Leaseholder() {
			hs.flag(st, k, "meta-lease", "c15:key-lease-bits:"+kindOf(ch),
				fmt.Sprintf("metadata entry %q key %d has leaseholder field %d", ch.Name, k, ch.Leaseholder))
		}
		if ch.Free() {
			continue // free channels have no engine; engine entries under the free id are flagged below
		}
		var at *engineEntry
		for i := range eng[k] {
			if eng[k][i].on == k.Leaseholder() {
				at = &eng[k][i]
			}
		}
		if at == nil {
			hs.flag(st, k, "missing-engine", "c15:missing-after-"+d+":engine:"+kindOf(ch),
				fmt.Sprintf("channel %q key %d is in cluster metadata but absent from leaseholder %d's engine (after %s, tx=%v)", ch.Name, k, k.Leaseholder(), d, st.Tx))
			continue
		}
		if hs.tainted[k] {
			continue
		}
		if !ch.Internal {
			hs.compared++
		}
		hs.h.Count("channels_compared", 1)
		want := ch.Storage()
		if want.IsIndex {
			want.Index = want.Key
		}
		got := at.ch
		var diffs []string
		if got.Key != want.Key {
			diffs = append(diffs, "key")
		}
		if got.DataType != want.DataType {
			diffs = append(diffs, "data_type")
		}
		if got.Index != want.Index || got.IsIndex != want.IsIndex {
			diffs = append(diffs, "index")
		}
		if got.Virtual != want.Virtual {
			diffs = append(diffs, "virtual")
		}
		if got.Name != want.Name {
			diffs = append(diffs, "name")
		}
		if len(diffs) > 0 {
			f := strings.Join(diffs, "+")
			hs.flag(st, k, "mismatch-"+f, "c15:mismatch-"+f+"-after-"+d+":"+kindOf(ch),
				fmt.Sprintf("channel key %d: metadata {name=%q type=%s index=%d is_index=%v virtual=%v} vs engine {name=%q type=%s index=%d is_index=%v virtual=%v} (after %s, tx=%v)",
					k, want.Name, want.DataType, want.Index, want.IsIndex, want.Virtual, got.Name, got.DataType, got.Index, got.IsIndex, got.Virtual, d, st.Tx))
		}
	}

	// engine -> metadata
	ekeys := make([]channel.Key, 0, len(eng))
	for k := range eng {
		ekeys = append(ekeys, k)
	}
	sortKeys(ekeys)
	for _, k := range ekeys {
		for _, e := range eng[k] {
			kd := engineKind(e.ch)
			if _, seen := hs.everSeen[k]; !seen {
				hs.everSeen[k] = kd
			}
			if e.on != k.Leaseholder() {
				hs.flag(st, k, fmt.Sprintf("foreign-%d", e.on), "c15:foreign-lease:engine:"+kd,
					fmt.Sprintf("engine of node %d holds channel %q key %d whose key embeds leaseholder %d", e.on, e.ch.Name, k, k.Leaseholder()))
				continue
			}
			if _, inMeta := m[k]; inMeta {
				continue
			}
			if _, del := hs.deleted[k]; del {
				continue // reported by checkDeleted with the engine-level symptoms
			}
			how := d
			if l, ok := hs.leftAt[k]; ok {
				how = l
			}
			sig := "c15:orphan-after-" + how + ":engine:" + kd
			if kd == "virtual" && (how == "delete" || how == "failed-delete") {
				// its metadata was removed by a (partially committed) delete: same residual as
				// a fully successful delete of a virtual channel
				sig = "c15:deleted-survives:engine:virtual"
			}
			if how == "overwrite-create" {
				// Which leaseholder did the overwriting channel of the same name go to?
				rel := "unknown-lease"
				for _, rc := range st.Chans {
					if rc.Name != e.ch.Name {
						continue
					}
					nl := node.Key(rc.Lease)
					if nl == 0 {
						nl = node.Key(st.Via)
					}
					if rc.Kind == "free" || rc.Kind == "calc" {
						nl = node.KeyFree
					}
					if nl == k.Leaseholder() {
						rel = "same-lease"
					} else {
						rel = "cross-lease"
					}
				}
				sig += ":" + rel
			}
			hs.flag(st, k, "orphan", sig,
				fmt.Sprintf("engine of node %d holds channel %q key %d that is not in cluster metadata (first seen after %s; tx=%v)", e.on, e.ch.Name, k, how, st.Tx))
		}
	}

	// names: with validation on, every name is valid and no two existing channels share
	// one. Not judged once some key's metadata failed to converge (the gateways then
	// validate against diverged views).
	if hs.validate && len(hs.stuck) == 0 {
		byName := map[string]channel.Channel{}
		for _, ch := range hs.sortedMeta() {
			if hs.tainted[ch.Key()] {
				continue
			}
			if err := channel.ValidateName(ch.Name); err != nil {
				hs.flag(st, ch.Key(), "invalid-name", "c15:invalid-name-after-"+d+":"+kindOf(ch),
					fmt.Sprintf("channel key %d has invalid name %q with name validation on", ch.Key(), ch.Name))
			}
			o, dup := byName[ch.Name]
			if !dup {
				byName[ch.Name] = ch
				continue
			}
			sig := "c15:duplicate-name-after-" + d
			for _, nk := range hs.nodes {
				if hs.idxStuck[fmt.Sprintf("%d|%s", nk, ch.Name)] {
					// some node's by-name lookup of this very name had been observed not to
					// match its own listing before the request that created the duplicate
					sig += ":stale-name-index"
					break
				}
			}
			for _, rc := range st.Chans {
				if rc.LocalKey != 0 && rc.Name == ch.Name && (channel.NewKey(node.KeyFree, channel.LocalKey(rc.LocalKey)) == o.Key() || channel.NewKey(node.KeyFree, channel.LocalKey(rc.LocalKey)) == ch.Key()) {
					// the request named an existing free channel by key (an update); the
					// service created a second channel with the name instead
					sig = "c15:duplicate-name:update-through-create-made-a-copy"
				}
			}
			switch {
			case kindOf(o) == "free-index" && kindOf(ch) == "free-index" && hs.newKeys[o.Key()] && hs.newKeys[ch.Key()]:
				sig = "c15:duplicate-name:calc-auto-index-created-twice"
			case strings.HasSuffix(ch.Name, "_time") &&
				((kindOf(ch) == "free-index" && hs.newKeys[ch.Key()] && (!hs.newKeys[o.Key()] || kindOf(o) != "free-index")) ||
					(kindOf(o) == "free-index" && hs.newKeys[o.Key()] && kindOf(ch) != "free-index")):
				// a calculated channel's auto-created index took a name that another channel
				// (existing, or requested in the same batch) has
				sig = "c15:duplicate-name:calc-auto-index-vs-existing"
			}
			hs.flag(st, ch.Key(), "dup-name", sig,
				fmt.Sprintf("channels %d (%s) and %d (%s) both have name %q with name validation on (after %s via node %d)", o.Key(), kindOf(o), ch.Key(), kindOf(ch), ch.Name, d, st.Via))
		}
	}

	hs.checkDeleted(ctx, st, deletedNow)
}

// checkDeleted: a successfully deleted channel can no longer be retrieved, written or
// read at either layer.
func (hs *history) checkDeleted(ctx context.Context, st step, keys []channel.Key) {
	for _, k := range keys {
		if hs.tainted[k] {
			continue
		}
		kind := hs.deleted[k]
		hs.h.Count("deleted_checked", 1)
		if st.Op == "delete-names" {
			if ch, still := hs.meta[k]; still {
				if hs.stuck[k] {
					// the gateway's own view of this channel (and so of its name) never converged
					delete(hs.deleted, k)
					continue
				}
				stale := ""
				if hs.idxStuck[fmt.Sprintf("%d|%s", st.Via, ch.Name)] {
					stale = fmt.Sprintf(" (node %d's by-name lookup of %q was already observed not to find it)", st.Via, ch.Name)
				}
				delete(hs.deleted, k)
				hs.violate(k, "delete-by-name-ignored", "c15:delete-by-name-ignored:"+kind,
					fmt.Sprintf("DeleteManyByNames(%q) via node %d returned nil but channel key %d with exactly that name still exists%s", ch.Name, st.Via, k, stale))
				continue
			}
		}
		// metadata: the home node always, the others unless the key is stuck
		var metaSym []string
		for _, nk := range hs.nodes {
			if hs.stuck[k] && nk != home(k) {
				continue
			}
			var out []channel.Channel
			err := hs.cluster.Nodes[nk].Channel.NewRetrieve().Where(channel.MatchKeys(k)).Entries(&out).Exec(ctx, nil)
			if err == nil && len(out) > 0 {
				metaSym = append(metaSym, fmt.Sprintf("retrievable-on-node-%d", nk))
			}
		}
		if len(metaSym) > 0 {
			hs.violate(k, "deleted-meta", "c15:deleted-survives:meta:"+kind,
				fmt.Sprintf("deleted channel key %d still in metadata: %v", k, metaSym))
		}
		// distribution framer, through the first and the last node
		var frSym []string
		if !hs.stuck[k] {
			for _, nk := range []node.Key{hs.nodes[0], hs.nodes[len(hs.nodes)-1]} {
				fr := hs.cluster.Nodes[nk].Framer
				if w, err := fr.OpenWriter(ctx, writer.Config{Keys: channel.Keys{k}, Start: telem.TimeStamp(1)}); err == nil {
					_ = w.Close()
					frSym = append(frSym, fmt.Sprintf("writer-opens-on-node-%d", nk))
				}
				if !k.Free() {
					if it, err := fr.OpenIterator(ctx, iterator.Config{Keys: channel.Keys{k}, Bounds: telem.TimeRangeMax}); err == nil {
						_ = it.Close()
						frSym = append(frSym, fmt.Sprintf("iterator-opens-on-node-%d", nk))
					}
				}
				if len(hs.nodes) == 1 {
					break
				}
			}
		}
		if len(frSym) > 0 {
			hs.violate(k, "deleted-framer", "c15:deleted-survives:framer:"+kind,
				fmt.Sprintf("deleted channel key %d still usable through the distribution framer: %v", k, frSym))
		}
		// engines
		var enSym []string
		for _, nk := range hs.nodes {
			db := hs.cluster.Nodes[nk].Storage.TS
			if _, err := db.RetrieveChannel(ctx, k.StorageKey()); err == nil {
				enSym = append(enSym, fmt.Sprintf("retrievable-on-engine-%d", nk))
			}
			if w, err := db.OpenWriter(ctx, cesium.WriterConfig{Channels: []cesium.ChannelKey{k.StorageKey()}, Start: telem.TimeStamp(1)}); err == nil {
				_ = w.Close()
				enSym = append(enSym, fmt.Sprintf("writer-opens-on-engine-%d", nk))
			}
			if it, err := db.OpenIterator(cesium.IteratorConfig{Channels: []cesium.ChannelKey{k.StorageKey()}, Bounds: telem.TimeRangeMax}); err == nil {
				_ = it.Close()
				enSym = append(enSym, fmt.Sprintf("iterator-opens-on-engine-%d", nk))
			}
		}
		if len(enSym) > 0 {
			hs.violate(k, "deleted-engine", "c15:deleted-survives:engine:"+kind,
				fmt.Sprintf("channel key %d was deleted successfully (%s, tx=%v) but the engine still has it: %v", k, st.descr(), st.Tx, enSym))
		}
	}
}
