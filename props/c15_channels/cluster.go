package main

import (
	"context"
	"fmt"
	"os"
	"path/filepath"
	"time"

	"github.com/synnaxlabs/aspen"
	aspentransmock "github.com/synnaxlabs/aspen/transport/mock"
	"github.com/synnaxlabs/synnax/pkg/distribution"
	"github.com/synnaxlabs/synnax/pkg/distribution/framer"
	"github.com/synnaxlabs/synnax/pkg/distribution/framer/deleter"
	"github.com/synnaxlabs/synnax/pkg/distribution/framer/iterator"
	"github.com/synnaxlabs/synnax/pkg/distribution/framer/relay"
	"github.com/synnaxlabs/synnax/pkg/distribution/framer/writer"
	"github.com/synnaxlabs/synnax/pkg/distribution/mock"
	"github.com/synnaxlabs/synnax/pkg/distribution/node"
	tmock "github.com/synnaxlabs/synnax/pkg/distribution/transport/mock"
	"github.com/synnaxlabs/synnax/pkg/storage"
	"github.com/synnaxlabs/x/address"
	"github.com/synnaxlabs/x/errors"
)

// cluster provisions nodes exactly as core/pkg/distribution/mock.Cluster does (same
// public mock networks, same options) but keeps what is needed to close one node's
// distribution layer and open it again over the same storage layer ("restart of a node's
// services"), which mock.Cluster's unexported fields do not allow.
type cluster struct {
	dir         string // non-empty: file-backed storage under this directory (needed for restarts)
	dirs        map[node.Key]string
	Nodes       map[node.Key]mock.Node
	addrs       map[node.Key]address.Address
	writerNet   *tmock.FramerWriterNetwork
	iterNet     *tmock.FramerIteratorNetwork
	channelNet  *tmock.ChannelNetwork
	relayNet    *tmock.FramerRelayNetwork
	deleteNet   *tmock.FramerDeleterNetwork
	aspenNet    *aspentransmock.Network
	addrFactory *address.Factory
	cfg         distribution.LayerConfig
}

type framerTransport struct {
	iter    iterator.Transport
	writer  writer.Transport
	relay   relay.Transport
	deleter deleter.Transport
}

var _ framer.Transport = framerTransport{}

func (m framerTransport) Iterator() iterator.Transport { return m.iter }
func (m framerTransport) Writer() writer.Transport     { return m.writer }
func (m framerTransport) Relay() relay.Transport       { return m.relay }
func (m framerTransport) Deleter() deleter.Transport   { return m.deleter }

// provisionCluster provisions n nodes. With dir == "" every node's storage is in memory;
// otherwise node i stores under dir/n<i> so that it can be closed and reopened.
func provisionCluster(ctx context.Context, n int, cfg distribution.LayerConfig, dir string) *cluster {
	c := &cluster{
		cfg:         cfg,
		dir:         dir,
		dirs:        map[node.Key]string{},
		writerNet:   tmock.NewWriterNetwork(),
		iterNet:     tmock.NewIteratorNetwork(),
		channelNet:  tmock.NewChannelNetwork(),
		relayNet:    tmock.NewRelayNetwork(),
		deleteNet:   tmock.NewDeleterNetwork(),
		aspenNet:    aspentransmock.NewNetwork(),
		addrFactory: address.NewLocalFactory(0),
		Nodes:       map[node.Key]mock.Node{},
		addrs:       map[node.Key]address.Address{},
	}
	for i := 0; i < n; i++ {
		peers := c.addrFactory.Generated()
		addr := c.addrFactory.Next()
		sdir := ""
		if dir != "" {
			sdir = filepath.Join(dir, fmt.Sprintf("n%d", i+1))
		}
		st, err := c.openStorage(ctx, sdir)
		if err != nil {
			panic(fmt.Sprintf("opening storage of node %d: %v", i+1, err))
		}
		l, err := c.open(ctx, st, addr, peers)
		if err != nil {
			panic(fmt.Sprintf("provisioning node %d: %v", i+1, err))
		}
		k := l.Cluster.HostKey()
		c.Nodes[k] = mock.Node{Layer: l, Storage: st}
		c.addrs[k] = addr
		c.dirs[k] = sdir
		c.waitTopology()
	}
	return c
}

func (c *cluster) openStorage(ctx context.Context, dir string) (*storage.Layer, error) {
	if dir == "" {
		return storage.OpenLayer(ctx, storage.LayerConfig{InMemory: new(true)})
	}
	if err := os.MkdirAll(dir, 0o755); err != nil {
		return nil, err
	}
	return storage.OpenLayer(ctx, storage.LayerConfig{InMemory: new(false), Dirname: dir})
}

func (c *cluster) open(ctx context.Context, st *storage.Layer, addr address.Address, peers []address.Address) (*distribution.Layer, error) {
	return distribution.OpenLayer(ctx, distribution.LayerConfig{
		Storage: st,
		FrameTransport: framerTransport{
			iter:    c.iterNet.New(addr, 1),
			writer:  c.writerNet.New(addr, 1),
			relay:   c.relayNet.New(addr, 1),
			deleter: c.deleteNet.New(addr),
		},
		ChannelTransport:     c.channelNet.New(addr),
		AspenTransport:       c.aspenNet.NewTransport(),
		AdvertiseAddress:     addr,
		PeerAddresses:        peers,
		AspenOptions:         []aspen.Option{aspen.WithPropagationConfig(aspen.FastPropagationConfig)},
		EnableServiceSignals: new(false),
	}, c.cfg)
}

func (c *cluster) waitTopology() {
	deadline := time.Now().Add(20 * time.Second)
	for _, n := range c.Nodes {
		for len(n.Cluster.Nodes()) != len(c.Nodes) {
			if time.Now().After(deadline) {
				panic("cluster topology did not stabilise")
			}
			time.Sleep(2 * time.Millisecond)
		}
	}
}

// restart closes node k's distribution and storage layers and opens both again over the
// same directory, at the same address (what a restart of the node's process does).
func (c *cluster) restart(ctx context.Context, k node.Key) error {
	if c.dir == "" {
		return errors.New("restart needs file-backed storage")
	}
	n := c.Nodes[k]
	if err := n.Layer.Close(); err != nil {
		return errors.Wrap(err, "close distribution layer")
	}
	if err := n.Storage.Close(); err != nil {
		return errors.Wrap(err, "close storage layer")
	}
	st, err := c.openStorage(ctx, c.dirs[k])
	if err != nil {
		return errors.Wrap(err, "reopen storage")
	}
	n.Storage = st
	var peers []address.Address
	for ok, a := range c.addrs {
		if ok != k {
			peers = append(peers, a)
		}
	}
	l, err := c.open(ctx, n.Storage, c.addrs[k], peers)
	if err != nil {
		return errors.Wrap(err, "reopen")
	}
	if l.Cluster.HostKey() != k {
		return errors.Newf("node %d came back as node %d", k, l.Cluster.HostKey())
	}
	c.Nodes[k] = mock.Node{Layer: l, Storage: n.Storage}
	return nil
}

func (c *cluster) Close() error {
	var err error
	for _, n := range c.Nodes {
		err = errors.Join(err, n.Close())
	}
	for _, n := range c.Nodes {
		err = errors.Join(err, n.Storage.Close())
	}
	if c.dir != "" {
		err = errors.Join(err, os.RemoveAll(c.dir))
	}
	return err
}
