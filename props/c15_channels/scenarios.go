package main

import (
	"fmt"

	"github.com/synnaxlabs/synnax/pkg/distribution/node"
)

// Layer "min": small scripted histories enumerated over (channel kind x leaseholder x
// gateway node x entry point). They use the same executor and the same oracle as the random
// histories; their point is that whatever they find comes with a 2-4 step witness.

type scenario struct {
	name  string
	nodes int
	steps []step
}

func dtOf(kind string) string {
	switch kind {
	case "index":
		return "timestamp"
	case "data-var":
		return "string"
	case "calc":
		return "float64"
	default:
		return "float32"
	}
}

// mk builds a create entry of the given kind. Data kinds reference index channel "ix".
func mk(kind, name string, lease uint16) reqChan {
	rc := reqChan{Kind: kind, Name: name, Lease: lease, DataType: dtOf(kind)}
	switch kind {
	case "data-fixed", "data-var":
		rc.IndexName = "ix"
	case "free":
		rc.Lease = uint16(node.KeyFree)
	case "calc":
		rc.Lease = 0
	}
	return rc
}

func leased(kind string) bool { return kind != "free" && kind != "calc" }

func buildScenarios(thorough bool) []scenario {
	var out []scenario
	kinds := []string{"index", "data-fixed", "data-var", "virtual", "free", "calc"}
	clusterSizes := []int{3}
	if thorough {
		clusterSizes = []int{1, 2, 3}
	}
	for _, n := range clusterSizes {
		var nodes []uint16
		for i := 1; i <= n; i++ {
			nodes = append(nodes, uint16(i))
		}
		leases := nodes
		if len(leases) > 2 {
			leases = leases[:2]
		}

		// F1 lifecycle: create, rename, delete one channel of every kind, for every
		// (leaseholder, gateway, entry point).
		for _, k := range kinds {
			ls := leases
			if !leased(k) {
				ls = []uint16{0}
			}
			for _, l := range ls {
				for _, via := range nodes {
					for _, tx := range []bool{true, false} {
						sc := scenario{name: fmt.Sprintf("lifecycle/%s/lease%d/via%d/tx%v/n%d", k, l, via, tx, n), nodes: n}
						if k == "data-fixed" || k == "data-var" {
							sc.steps = append(sc.steps, step{Op: "create", Via: via, Tx: tx, Chans: []reqChan{mk("index", "ix", l)}})
						}
						sc.steps = append(sc.steps,
							step{Op: "create", Via: via, Tx: tx, Chans: []reqChan{mk(k, "a", l)}},
							step{Op: "rename", Via: via, Tx: tx, KeyNames: []string{"a"}, Names: []string{"b"}},
							step{Op: "delete", Via: via, Tx: tx, KeyNames: []string{"b"}},
						)
						out = append(out, sc)
					}
				}
			}
		}

		// F1b create batches with RetrieveIfNameExists that mix existing names and new ones
		// (existing first, existing in the middle), followed by further creates on the same
		// leaseholder and a delete + create: every key handed out must be new.
		for _, k := range []string{"index", "virtual", "free", "data-fixed"} {
			for _, remote := range []bool{false, true} {
				if remote && n == 1 {
					continue
				}
				for _, pos := range []string{"first", "middle"} {
					via := nodes[0]
					l := via
					if remote {
						l = nodes[len(nodes)-1]
					}
					if !leased(k) {
						l = 0
					}
					batch := []reqChan{mk(k, "a", l), mk(k, "n1", l), mk(k, "n2", l)}
					if pos == "middle" {
						batch = []reqChan{mk(k, "n1", l), mk(k, "a", l), mk(k, "n2", l)}
					}
					il := l
					if il == 0 {
						il = via
					}
					sc := scenario{name: fmt.Sprintf("retrieve-mixed/%s/%s/remote%v/n%d", k, pos, remote, n), nodes: n, steps: []step{
						{Op: "create", Via: via, Tx: true, Chans: []reqChan{mk("index", "ix", il)}},
						{Op: "create", Via: via, Tx: true, Chans: []reqChan{mk(k, "a", l)}},
						{Op: "create", Via: via, Tx: true, Retrieve: true, Chans: batch},
						{Op: "create", Via: via, Tx: true, Chans: []reqChan{mk(k, "n3", l)}},
						{Op: "delete", Via: via, Tx: true, KeyNames: []string{"n1"}},
						{Op: "create", Via: via, Tx: true, Chans: []reqChan{mk(k, "n4", l), mk(k, "n5", l)}},
					}}
					out = append(out, sc)
				}
			}
		}

		// F2 failing create batch (transactional): a valid entry followed by a failing one.
		faults := []string{"missing-index", "invalid-name", "dup-in-req", "existing-name"}
		for _, k := range kinds {
			if k == "calc" {
				continue
			}
			for _, f := range faults {
				for _, remote := range []bool{false, true} {
					if remote && n == 1 {
						continue
					}
					via := nodes[0]
					l := via
					if remote {
						l = nodes[len(nodes)-1]
					}
					bad := reqChan{Kind: "data-fixed", Name: "bad", Lease: l, DataType: "float32", IndexName: "ix"}
					switch f {
					case "missing-index":
						bad.IndexName = ""
						bad.LocalIndex = 900001
						bad.Fault = f
					case "invalid-name":
						bad.Name = "has space"
					case "dup-in-req":
						bad.Name = "a"
					case "existing-name":
						bad.Name = "ix"
					}
					sc := scenario{name: fmt.Sprintf("failing-create/%s/%s/remote%v/n%d", k, f, remote, n), nodes: n, steps: []step{
						{Op: "create", Via: via, Tx: true, Chans: []reqChan{mk("index", "ix", l)}},
						{Op: "create", Via: via, Tx: true, Chans: []reqChan{mk(k, "a", l), bad}},
					}}
					out = append(out, sc)
				}
			}
		}

		// F3 failing delete batch (transactional): the index still has another dependent.
		for _, first := range []string{"data-fixed", "virtual", "index"} {
			for _, remote := range []bool{false, true} {
				if remote && n == 1 {
					continue
				}
				via := nodes[0]
				l := via
				if remote {
					l = nodes[len(nodes)-1]
				}
				firstName := "d1"
				create := []reqChan{mk("data-fixed", "d1", l), mk("data-fixed", "d2", l)}
				switch first {
				case "virtual":
					create = append(create, mk("virtual", "v", l))
					firstName = "v"
				case "index":
					create = append(create, mk("index", "ix2", l))
					firstName = "ix2"
				}
				sc := scenario{name: fmt.Sprintf("failing-delete/%s/remote%v/n%d", first, remote, n), nodes: n, steps: []step{
					{Op: "create", Via: via, Tx: true, Chans: []reqChan{mk("index", "ix", l)}},
					{Op: "create", Via: via, Tx: true, Chans: create},
					{Op: "delete", Via: via, Tx: true, KeyNames: []string{firstName, "ix"}},
				}}
				out = append(out, sc)
			}
		}

		// F3b failing rename batch, with and without a transaction: valid entries followed
		// by a system channel (made later, so its key sorts last) whose rename is refused.
		for _, first := range []string{"data-fixed", "virtual", "index"} {
			for _, tx := range []bool{true, false} {
				for _, remote := range []bool{false, true} {
					if remote && n == 1 {
						continue
					}
					via := nodes[0]
					l := via
					if remote {
						l = nodes[len(nodes)-1]
					}
					sys := mk("virtual", "sys", l)
					sys.Internal = true
					firstName := map[string]string{"data-fixed": "d1", "virtual": "v", "index": "ix"}[first]
					second := "v"
					if first == "virtual" {
						second = "d1"
					}
					sc := scenario{name: fmt.Sprintf("failing-rename/%s/tx%v/remote%v/n%d", first, tx, remote, n), nodes: n, steps: []step{
						{Op: "create", Via: via, Tx: true, Chans: []reqChan{mk("index", "ix", l)}},
						{Op: "create", Via: via, Tx: true, Chans: []reqChan{mk("data-fixed", "d1", l), mk("virtual", "v", l)}},
						{Op: "create", Via: via, Tx: true, Chans: []reqChan{sys}},
						{Op: "rename", Via: via, Tx: tx, KeyNames: []string{firstName, second, "sys"}, Names: []string{"r1", "r2", "r3"}},
						{Op: "create", Via: via, Tx: true, Chans: []reqChan{mk("virtual", firstName, l)}},
					}}
					out = append(out, sc)
				}
			}
		}

		// F4 overwrite-create over an existing channel of the same name.
		for _, oldK := range []string{"index", "data-fixed", "virtual", "free"} {
			for _, oldL := range leases {
				for _, newK := range []string{"virtual", "index"} {
					for _, newL := range leases {
						for _, via := range []uint16{nodes[0], nodes[len(nodes)-1]} {
							if !leased(oldK) && oldL != leases[0] {
								continue
							}
							sc := scenario{name: fmt.Sprintf("overwrite/%s@%d->%s@%d/via%d/n%d", oldK, oldL, newK, newL, via, n), nodes: n}
							if oldK == "data-fixed" {
								sc.steps = append(sc.steps, step{Op: "create", Via: via, Tx: true, Chans: []reqChan{mk("index", "ix", oldL)}})
							}
							nw := mk(newK, "x", newL)
							if newK == "virtual" {
								nw.DataType = "int64" // differs from every old kind's type
							}
							sc.steps = append(sc.steps,
								step{Op: "create", Via: via, Tx: true, Chans: []reqChan{mk(oldK, "x", oldL)}},
								step{Op: "create", Via: via, Tx: true, Overwrite: true, Chans: []reqChan{nw}},
							)
							out = append(out, sc)
							if len(nodes) == 1 {
								break
							}
						}
					}
				}
			}
		}

		// F5 name collisions (validation on): channel A gets name "nm_time" (directly or by
		// rename) through node i; then something else tries to get the same name through
		// node j. Whatever the outcome of the second request, no two channels may share it.
		is := []uint16{nodes[0], nodes[len(nodes)-1]}
		js := []uint16{nodes[0]}
		if n > 1 {
			js = append(js, nodes[1])
		}
		for _, aKind := range []string{"index", "free", "virtual"} {
			for _, byRename := range []bool{false, true} {
				for _, i := range is {
					for _, second := range []string{"create-index", "create-free", "create-calc-base", "rename-other"} {
						for _, j := range js {
							sc := scenario{name: fmt.Sprintf("name-collision/%s/rename%v/via%d/%s/via%d/n%d", aKind, byRename, i, second, j, n), nodes: n}
							first := "nm_time"
							if byRename {
								first = "w"
							}
							sc.steps = append(sc.steps, step{Op: "create", Via: nodes[0], Tx: true, Chans: []reqChan{mk(aKind, first, nodes[0])}})
							if byRename {
								sc.steps = append(sc.steps, step{Op: "rename", Via: i, Tx: true, KeyNames: []string{"w"}, Names: []string{"nm_time"}})
							} else {
								sc.steps[0].Via = i
							}
							switch second {
							case "create-index":
								sc.steps = append(sc.steps, step{Op: "create", Via: j, Tx: true, Chans: []reqChan{mk("index", "nm_time", j)}})
							case "create-free":
								sc.steps = append(sc.steps, step{Op: "create", Via: j, Tx: true, Chans: []reqChan{mk("free", "nm_time", 0)}})
							case "create-calc-base":
								sc.steps = append(sc.steps, step{Op: "create", Via: j, Tx: true, Chans: []reqChan{mk("calc", "nm", 0)}})
							case "rename-other":
								sc.steps = append(sc.steps,
									step{Op: "create", Via: j, Tx: true, Chans: []reqChan{mk("free", "other", 0)}},
									step{Op: "rename", Via: j, Tx: true, KeyNames: []string{"other"}, Names: []string{"nm_time"}})
							}
							out = append(out, sc)
						}
					}
				}
			}
		}
	}
	return out
}
