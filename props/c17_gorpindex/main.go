// C17 — indexed queries equal full scans; uncommitted writes stay private, aborts vanish.
//
// Runtime monitor over the REAL x/go/gorp (table + two LookupIndexes + one SortedIndex on
// pebble-in-memory):
//
//	seq   generated single-goroutine histories of create / update / delete (by key and by
//	      filter) / raw (index-less, observer-propagated) writes / reopen (bulk populate)
//	      across up to four interleaved open transactions that commit or abort in any
//	      order, with queries built from random filter trees. Every query is answered three
//	      ways in the same view: (A) as written, through the indexes; (B) with every index
//	      filter replaced by the equivalent predicate (full scan); (C) by a plain-map
//	      reference model with per-transaction overlays. A != B, A != C, B != C are
//	      violations with distinct signatures; C also decides the visibility clauses.
//	conc  four goroutines, each running its own transactions against one table, private and
//	      shared keys; per-goroutine exact model on private keys, and at quiescence the
//	      index contents must equal a full scan (nothing kept for aborted/deleted rows).
package main

import (
	"context"
	"fmt"
	"github.com/synnaxlabs/x/observe"
	"runtime"
	"sort"
	"strings"
	"sync"
	"sync/atomic"
	"time"

	"github.com/cockroachdb/pebble/v2"
	"github.com/cockroachdb/pebble/v2/vfs"
	"github.com/synnaxlabs/x/errors"
	"github.com/synnaxlabs/x/gorp"
	"github.com/synnaxlabs/x/kv"
	"github.com/synnaxlabs/x/kv/pebblekv"
	"github.com/synnaxlabs/x/query"

	"verif/lib/harness"
	"verif/lib/prng"
)

func main() {
	harness.Main("C17", "exploration",
		harness.Layer{Name: "seq", Run: layerSeq},
		harness.Layer{Name: "conc", Run: layerConc},
		harness.Layer{Name: "pair", Run: layerPair},
	)
}

// ---------------------------------------------------------------------------------------
// entry type and store

type Row struct {
	K uint32 `json:"k" msgpack:"k"`
	S string `json:"s" msgpack:"s"`
	B bool   `json:"b" msgpack:"b"`
	N int    `json:"n" msgpack:"n"`
	G int    `json:"g" msgpack:"g"` // not indexed
}

func (r Row) GorpKey() uint32   { return r.K }
func (r Row) SetOptions() []any { return nil }

var (
	sVals = []string{"a", "b", "ab", "c"}
	nVals = []int{0, 1, 2, 3, 4}
)

// newMemKV is memkv.New() with a small memtable (one store per history).
func newMemKV() kv.DB {
	cache := pebble.NewCache(1 << 20)
	defer cache.Unref()
	pdb, err := pebble.Open("", &pebble.Options{
		FS:           vfs.NewMem(),
		Logger:       pebblekv.NewNoopLogger(),
		MemTableSize: 256 << 10,
		Cache:        cache,
	})
	if err != nil {
		panic(err)
	}
	return pebblekv.Wrap(pdb)
}

// failKV: the key-value store with a switch that makes the NEXT transaction commits fail
// (nothing is written, an error is returned) — a storage fault, or a commit refused by a
// replicated store. "After abort none does": a transaction whose commit failed is an
// aborted one.
type failKV struct {
	kv.DB
	armed atomic.Bool
}

var errCommitRefused = errors.New("verif: commit refused by the store")

func (f *failKV) OpenTx() kv.Tx { return &failTx{Tx: f.DB.OpenTx(), f: f} }

type failTx struct {
	kv.Tx
	f *failKV
}

func (t *failTx) Commit(ctx context.Context, opts ...any) error {
	if t.f.armed.Load() {
		return errCommitRefused
	}
	return t.Tx.Commit(ctx, opts...)
}

// subHook is the observable the indexes subscribe to: the store's own, with a callback
// run at the moment an index observer subscribes (a write replicated from another node
// may be persisted exactly then).
type subHook struct {
	inner       observe.Observable[kv.TxReader]
	onSubscribe func()
}

func (s *subHook) OnChange(h func(context.Context, kv.TxReader)) observe.Disconnect {
	d := s.inner.OnChange(h)
	if f := s.onSubscribe; f != nil {
		f()
	}
	return d
}

type store struct {
	ctx  context.Context
	hook *subHook
	fkv  *failKV
	db   *gorp.DB
	tbl  *gorp.Table[uint32, Row]
	idxS *gorp.LookupIndex[uint32, Row, string]
	idxB *gorp.LookupIndex[uint32, Row, bool]
	idxN *gorp.SortedIndex[uint32, Row, int]
}

func (s *store) openTable(wait bool) error {
	s.idxS = gorp.NewLookupIndex[uint32, Row, string]("s", func(r *Row) string { return r.S })
	s.idxB = gorp.NewLookupIndex[uint32, Row, bool]("b", func(r *Row) bool { return r.B })
	s.idxN = gorp.NewSortedIndex[uint32, Row, int]("n", func(r *Row) int { return r.N })
	t, err := gorp.OpenTable(s.ctx, gorp.TableConfig[uint32, Row]{
		DB:      s.db,
		Indexes: []gorp.Index[uint32, Row]{s.idxS, s.idxB, s.idxN},
	})
	if err != nil {
		return err
	}
	s.tbl = t
	if wait {
		return t.WaitForIndexes(s.ctx)
	}
	return nil
}

func openStore(pre []Row, wait bool) (*store, error) {
	fkv := &failKV{DB: newMemKV()}
	hook := &subHook{inner: fkv}
	s := &store{ctx: context.Background(), fkv: fkv, hook: hook, db: gorp.Wrap(fkv, gorp.WithIndexObservable(hook))}
	if len(pre) > 0 {
		rows := append([]Row{}, pre...)
		if err := gorp.NewCreate[uint32, Row]().Entries(&rows).Exec(s.ctx, s.db); err != nil {
			_ = s.db.Close()
			return nil, err
		}
	}
	if err := s.openTable(wait); err != nil {
		_ = s.db.Close()
		return nil, err
	}
	return s, nil
}

func (s *store) close() {
	if s.tbl != nil {
		_ = s.tbl.Close()
	}
	_ = s.db.Close()
}

// ---------------------------------------------------------------------------------------
// filter trees

type fnode struct {
	T    string   `json:"t"` // S B N keys pred and or not
	SV   []string `json:"sv,omitempty"`
	BV   []bool   `json:"bv,omitempty"`
	NV   []int    `json:"nv,omitempty"`
	KV   []uint32 `json:"kv,omitempty"`
	P    int      `json:"p,omitempty"`
	Kids []fnode  `json:"kids,omitempty"`
}

func (f fnode) String() string {
	switch f.T {
	case "S":
		return fmt.Sprintf("S%v", f.SV)
	case "B":
		return fmt.Sprintf("B%v", f.BV)
	case "N":
		return fmt.Sprintf("N%v", f.NV)
	case "keys":
		return fmt.Sprintf("keys%v", f.KV)
	case "pred":
		return fmt.Sprintf("pred%d", f.P)
	case "not":
		return "not(" + f.Kids[0].String() + ")"
	}
	parts := make([]string, len(f.Kids))
	for i, k := range f.Kids {
		parts[i] = k.String()
	}
	return f.T + "(" + strings.Join(parts, ",") + ")"
}

func predEval(p int, r *Row) bool {
	switch p {
	case 0:
		return r.N%2 == 0
	case 1:
		return r.S < "b"
	case 2:
		return r.G%3 == 0
	case 3:
		return true
	}
	return false
}

func containsS(xs []string, v string) bool {
	for _, x := range xs {
		if x == v {
			return true
		}
	}
	return false
}
func containsB(xs []bool, v bool) bool {
	for _, x := range xs {
		if x == v {
			return true
		}
	}
	return false
}
func containsN(xs []int, v int) bool {
	for _, x := range xs {
		if x == v {
			return true
		}
	}
	return false
}
func containsK(xs []uint32, v uint32) bool {
	for _, x := range xs {
		if x == v {
			return true
		}
	}
	return false
}

// eval is the reference meaning of a filter tree on one row.
func (f fnode) eval(r *Row) bool {
	switch f.T {
	case "S":
		return containsS(f.SV, r.S)
	case "B":
		return containsB(f.BV, r.B)
	case "N":
		return containsN(f.NV, r.N)
	case "keys":
		return containsK(f.KV, r.K)
	case "pred":
		return predEval(f.P, r)
	case "not":
		return !f.Kids[0].eval(r)
	case "and":
		for _, k := range f.Kids {
			if !k.eval(r) {
				return false
			}
		}
		return true
	case "or":
		for _, k := range f.Kids {
			if k.eval(r) {
				return true
			}
		}
		return false
	}
	panic("bad node " + f.T)
}

type F = gorp.Filter[uint32, Row]

func match(f func(r *Row) bool) F {
	return gorp.Match[uint32, Row](func(_ gorp.Context, r *Row) (bool, error) { return f(r), nil })
}

// build turns the tree into a gorp filter. indexed=true uses idx.Filter for S/B/N leaves
// (path A); indexed=false replaces each of them by the equivalent predicate (path B).
func (f fnode) build(s *store, indexed bool) F {
	switch f.T {
	case "S":
		if indexed {
			return s.idxS.Filter(f.SV...)
		}
		sv := f.SV
		return match(func(r *Row) bool { return containsS(sv, r.S) })
	case "B":
		if indexed {
			return s.idxB.Filter(f.BV...)
		}
		bv := f.BV
		return match(func(r *Row) bool { return containsB(bv, r.B) })
	case "N":
		if indexed {
			return s.idxN.Filter(f.NV...)
		}
		nv := f.NV
		return match(func(r *Row) bool { return containsN(nv, r.N) })
	case "keys":
		return gorp.MatchKeys[uint32, Row](f.KV...)
	case "pred":
		p := f.P
		return match(func(r *Row) bool { return predEval(p, r) })
	case "not":
		return gorp.Not(f.Kids[0].build(s, indexed))
	}
	kids := make([]F, len(f.Kids))
	for i, k := range f.Kids {
		kids[i] = k.build(s, indexed)
	}
	if f.T == "and" {
		return gorp.And(kids...)
	}
	return gorp.Or(kids...)
}

// bareKeys: the tree is made of key sets combined by and/or only. gorp documents special
// result conventions for such queries (ErrNotFound on missing keys, Exists = "all exist"),
// identical on both paths and outside the statement; the model is not consulted for
// Exists on them.
func (f fnode) bareKeys() bool {
	switch f.T {
	case "keys":
		return true
	case "and", "or":
		for _, k := range f.Kids {
			if !k.bareKeys() {
				return false
			}
		}
		return true
	}
	return false
}

func (f fnode) usesIndex() string {
	m := map[string]bool{}
	var walk func(n fnode)
	walk = func(n fnode) {
		switch n.T {
		case "S", "B", "N":
			m[n.T] = true
		}
		for _, k := range n.Kids {
			walk(k)
		}
	}
	walk(f)
	out := ""
	for _, t := range []string{"S", "B", "N"} {
		if m[t] {
			out += t
		}
	}
	return out
}

// dupValueLeaf reports whether some index leaf of the tree lists the same value twice.
func (f fnode) dupValueLeaf() bool {
	switch f.T {
	case "S":
		return len(dedupS(f.SV)) != len(f.SV)
	case "N":
		return len(dedupN(f.NV)) != len(f.NV)
	}
	for _, k := range f.Kids {
		if k.dupValueLeaf() {
			return true
		}
	}
	return false
}

// repeatedValueMatches: some index leaf lists twice a value that row r carries in the
// leaf's field. Used only to NAME a duplicate-entry violation.
func (f fnode) repeatedValueMatches(r *Row) bool {
	switch f.T {
	case "S":
		n := 0
		for _, v := range f.SV {
			if v == r.S {
				n++
			}
		}
		return n > 1
	case "N":
		n := 0
		for _, v := range f.NV {
			if v == r.N {
				n++
			}
		}
		return n > 1
	}
	for _, k := range f.Kids {
		if k.repeatedValueMatches(r) {
			return true
		}
	}
	return false
}

const sigDupValues = "c17:index-path:repeated-filter-value-yields-repeated-entries"

func (f fnode) shape() string {
	switch f.T {
	case "S", "B", "N":
		return "idx"
	case "keys":
		return "keys"
	case "pred":
		return "pred"
	case "not":
		return "not(" + f.Kids[0].shape() + ")"
	}
	parts := make([]string, len(f.Kids))
	for i, k := range f.Kids {
		parts[i] = k.shape()
	}
	sort.Strings(parts)
	return f.T + "(" + strings.Join(parts, ",") + ")"
}

func genTree(r *prng.R, depth int, keys []uint32, dupValues bool) fnode {
	leaf := func() fnode {
		switch r.Intn(10) {
		case 0, 1, 2:
			n := r.Range(1, 2)
			v := []string{}
			for i := 0; i < n; i++ {
				v = append(v, prng.Pick(r, sVals))
			}
			if !dupValues {
				v = dedupS(v)
			}
			return fnode{T: "S", SV: v}
		case 3, 4:
			v := []bool{r.Bool()}
			if r.Chance(1, 6) {
				v = []bool{true, false}
			}
			return fnode{T: "B", BV: v}
		case 5, 6:
			n := r.Range(1, 3)
			v := []int{}
			for i := 0; i < n; i++ {
				v = append(v, prng.Pick(r, nVals))
			}
			if !dupValues {
				v = dedupN(v)
			}
			return fnode{T: "N", NV: v}
		case 7, 8:
			n := r.Range(1, 4)
			m := map[uint32]bool{}
			for i := 0; i < n; i++ {
				m[prng.Pick(r, keys)] = true
			}
			kv := []uint32{}
			for k := range m {
				kv = append(kv, k)
			}
			sort.Slice(kv, func(i, j int) bool { return kv[i] < kv[j] })
			return fnode{T: "keys", KV: kv}
		}
		return fnode{T: "pred", P: r.Intn(5)}
	}
	if depth <= 0 || r.Chance(2, 5) {
		return leaf()
	}
	switch r.Intn(5) {
	case 0, 1:
		n := r.Range(2, 3)
		kids := make([]fnode, n)
		for i := range kids {
			kids[i] = genTree(r, depth-1, keys, dupValues)
		}
		return fnode{T: "and", Kids: kids}
	case 2, 3:
		n := r.Range(2, 3)
		kids := make([]fnode, n)
		for i := range kids {
			kids[i] = genTree(r, depth-1, keys, dupValues)
		}
		return fnode{T: "or", Kids: kids}
	}
	return fnode{T: "not", Kids: []fnode{genTree(r, depth-1, keys, dupValues)}}
}

func dedupS(v []string) []string {
	m := map[string]bool{}
	out := []string{}
	for _, x := range v {
		if !m[x] {
			m[x] = true
			out = append(out, x)
		}
	}
	return out
}

func dedupN(v []int) []int {
	m := map[int]bool{}
	out := []int{}
	for _, x := range v {
		if !m[x] {
			m[x] = true
			out = append(out, x)
		}
	}
	return out
}

// ---------------------------------------------------------------------------------------
// operations and the reference model

type op struct {
	K    string   `json:"k"` // begin commit abort create update delete rawset rawdel reopen query ordered get
	Slot int      `json:"slot"`
	Rows []Row    `json:"rows,omitempty"`
	Keys []uint32 `json:"keys,omitempty"`
	F    *fnode   `json:"f,omitempty"`
	// update: which field to change
	Chg  string `json:"chg,omitempty"` // S N B G
	ChgS string `json:"chg_s,omitempty"`
	ChgN int    `json:"chg_n,omitempty"`
	// query
	Kind string `json:"kind,omitempty"` // exec count exists
	// ordered
	Desc   bool `json:"desc,omitempty"`
	HasCur bool `json:"has_cur,omitempty"`
	Cur    int  `json:"cur,omitempty"`
	Limit  int  `json:"limit,omitempty"`
	Wait   bool `json:"wait,omitempty"` // reopen: WaitForIndexes before continuing
}

func (o op) String() string {
	slot := fmt.Sprintf("tx%d", o.Slot)
	if o.Slot < 0 {
		slot = "db"
	}
	switch o.K {
	case "begin", "commit", "abort", "failcommit":
		return o.K + "(" + slot + ")"
	case "create", "rawset":
		return fmt.Sprintf("%s(%s,%v)", o.K, slot, o.Rows)
	case "rawdel":
		return fmt.Sprintf("rawdel(%v)", o.Keys)
	case "update":
		tgt := fmt.Sprint(o.Keys)
		if o.F != nil {
			tgt = o.F.String()
		}
		return fmt.Sprintf("update(%s,%s,%s=%s/%d)", slot, tgt, o.Chg, o.ChgS, o.ChgN)
	case "delete":
		tgt := fmt.Sprint(o.Keys)
		if o.F != nil {
			tgt = o.F.String()
		}
		return fmt.Sprintf("delete(%s,%s)", slot, tgt)
	case "query":
		return fmt.Sprintf("query(%s,%s,%s)", slot, o.Kind, o.F.String())
	case "ordered":
		w := ""
		if o.F != nil {
			w = ",where=" + o.F.String()
		}
		return fmt.Sprintf("ordered(%s,desc=%v,after=%v/%d,limit=%d%s)", slot, o.Desc, o.HasCur, o.Cur, o.Limit, w)
	case "reopen":
		return fmt.Sprintf("reopen(wait=%v)", o.Wait)
	}
	return o.K
}

type script struct {
	Pre  []Row `json:"preexisting_rows"`
	Wait bool  `json:"wait_for_indexes"`
	Ops  []op  `json:"ops"`
}

type finding struct {
	Sig  string
	What string
	At   int
}

type stats struct {
	Ops, Queries, QueriesNonEmpty, InTxWithOwnWrites, WithForeignUncommitted, Ordered, Gets int
	Commits, Aborts, Reopens, RawWrites, Updates, Deletes, Creates, FailedCommits           int
	WritesDuringOpen                                                                        int
	FilterUpdates, OrderedShort                                                             int
}

const nSlots = 4

type world struct {
	s    *store
	txs  [nSlots]gorp.Tx
	com  map[uint32]Row
	ov   [nSlots]map[uint32]*Row // nil map = slot closed; nil *Row = deleted in that tx
	st   *stats
	out  []finding
	at   int
	stop bool
}

func (w *world) report(sig, what string) { w.out = append(w.out, finding{sig, what, w.at}) }

// view returns the rows the statement says slot may see: committed rows overlaid with the
// slot's own uncommitted writes. slot < 0: committed only.
func (w *world) view(slot int) map[uint32]Row {
	v := make(map[uint32]Row, len(w.com))
	for k, r := range w.com {
		v[k] = r
	}
	if slot >= 0 && w.ov[slot] != nil {
		for k, r := range w.ov[slot] {
			if r == nil {
				delete(v, k)
			} else {
				v[k] = *r
			}
		}
	}
	return v
}

func (w *world) tx(slot int) gorp.Tx {
	if slot >= 0 && w.txs[slot] != nil {
		return w.txs[slot]
	}
	return w.s.db
}

func (w *world) effSlot(slot int) int {
	if slot >= 0 && slot < nSlots && w.txs[slot] != nil {
		return slot
	}
	return -1
}

func (w *world) write(slot int, k uint32, r *Row) {
	if slot >= 0 {
		w.ov[slot][k] = r
		return
	}
	if r == nil {
		delete(w.com, k)
	} else {
		w.com[k] = *r
	}
}

func (w *world) viewTag(slot int) string {
	own := slot >= 0 && len(w.ov[slot]) > 0
	foreign := false
	for i := 0; i < nSlots; i++ {
		if i != slot && w.ov[i] != nil && len(w.ov[i]) > 0 {
			foreign = true
		}
	}
	switch {
	case slot < 0 && foreign:
		return "committed-view-while-others-uncommitted"
	case slot < 0:
		return "committed-view"
	case own && foreign:
		return "tx-own-writes-and-others-uncommitted"
	case own:
		return "tx-own-writes"
	case foreign:
		return "tx-clean-while-others-uncommitted"
	}
	return "tx-clean"
}

func runScript(sc script, st *stats) (out []finding) {
	if st == nil {
		st = &stats{}
	}
	s, err := openStore(sc.Pre, sc.Wait)
	if err != nil {
		return []finding{{Sig: "c17:harness:open-failed", What: err.Error()}}
	}
	w := &world{s: s, com: map[uint32]Row{}, st: st}
	for _, r := range sc.Pre {
		w.com[r.K] = r
	}
	defer func() {
		for i := range w.txs {
			if w.txs[i] != nil {
				_ = w.txs[i].Close()
			}
		}
		w.s.close()
	}()
	defer func() {
		if r := recover(); r != nil {
			w.report("c17:panic", fmt.Sprintf("real code panicked at op %d: %v", w.at, r))
			out = w.out
		}
	}()
	for i, o := range sc.Ops {
		w.at = i
		w.apply(o)
		if w.stop {
			return w.out
		}
	}
	// end of history: close everything that is still open (abort), then the index itself
	// must hold exactly the committed rows.
	w.at = len(sc.Ops)
	for i := range w.txs {
		if w.txs[i] != nil {
			_ = w.txs[i].Close()
			w.txs[i], w.ov[i] = nil, nil
		}
	}
	w.checkGets(-1)
	w.checkQuery(op{K: "query", Slot: -1, Kind: "exec", F: &fnode{T: "or", Kids: []fnode{{T: "S", SV: sVals}, {T: "N", NV: nVals}}}})
	return w.out
}

func (w *world) apply(o op) {
	w.st.Ops++
	ctx := w.s.ctx
	switch o.K {
	case "begin":
		if o.Slot >= 0 && w.txs[o.Slot] == nil {
			w.txs[o.Slot] = w.s.db.OpenTx()
			w.ov[o.Slot] = map[uint32]*Row{}
		}
	case "commit":
		if o.Slot >= 0 && w.txs[o.Slot] != nil {
			err := w.txs[o.Slot].Commit(ctx)
			_ = w.txs[o.Slot].Close()
			if err != nil {
				w.report("c17:tx:commit-error", err.Error())
				w.stop = true
				return
			}
			for k, r := range w.ov[o.Slot] {
				w.write(-1, k, r)
			}
			w.txs[o.Slot], w.ov[o.Slot] = nil, nil
			w.st.Commits++
			w.checkGets(-1)
		}
	case "failcommit":
		// the store refuses this commit: nothing of the transaction may become visible,
		// in the table or in any index
		if o.Slot >= 0 && w.txs[o.Slot] != nil {
			w.s.fkv.armed.Store(true)
			err := w.txs[o.Slot].Commit(ctx)
			w.s.fkv.armed.Store(false)
			_ = w.txs[o.Slot].Close()
			if err == nil {
				w.report("c17:tx:refused-commit-reported-success", "the store refused the commit, Tx.Commit returned nil")
				w.stop = true
				return
			}
			w.txs[o.Slot], w.ov[o.Slot] = nil, nil
			w.st.Aborts++
			w.st.FailedCommits++
			w.checkGets(-1)
		}
	case "abort":
		if o.Slot >= 0 && w.txs[o.Slot] != nil {
			_ = w.txs[o.Slot].Close()
			w.txs[o.Slot], w.ov[o.Slot] = nil, nil
			w.st.Aborts++
			w.checkGets(-1)
		}
	case "create":
		slot := w.effSlot(o.Slot)
		rows := append([]Row{}, o.Rows...)
		if err := w.s.tbl.NewCreate().Entries(&rows).Exec(ctx, w.tx(slot)); err != nil {
			w.report("c17:write:error", fmt.Sprintf("%s: %v", o, err))
			w.stop = true
			return
		}
		for i := range o.Rows {
			r := o.Rows[i]
			w.write(slot, r.K, &r)
		}
		w.st.Creates++
	case "rawset":
		// index-less writer, straight to the store: the table's indexes learn about it
		// only through the change observer (the path replicated writes take).
		rows := append([]Row{}, o.Rows...)
		if err := gorp.NewCreate[uint32, Row]().Entries(&rows).Exec(ctx, w.s.db); err != nil {
			w.report("c17:write:error", fmt.Sprintf("%s: %v", o, err))
			w.stop = true
			return
		}
		for i := range o.Rows {
			r := o.Rows[i]
			w.write(-1, r.K, &r)
		}
		w.st.RawWrites++
	case "rawdel":
		if err := gorp.NewDelete[uint32, Row]().Where(gorp.MatchKeys[uint32, Row](o.Keys...)).Exec(ctx, w.s.db); err != nil {
			w.report("c17:write:error", fmt.Sprintf("%s: %v", o, err))
			w.stop = true
			return
		}
		for _, k := range o.Keys {
			w.write(-1, k, nil)
		}
		w.st.RawWrites++
	case "update", "delete":
		slot := w.effSlot(o.Slot)
		v := w.view(slot)
		var flt F
		var targets []uint32
		if o.F != nil && !o.F.bareKeys() {
			flt = o.F.build(w.s, true)
			for k, r := range v {
				if o.F.eval(&r) {
					targets = append(targets, k)
				}
			}
			sort.Slice(targets, func(i, j int) bool { return targets[i] < targets[j] })
			w.st.FilterUpdates++
		} else {
			if o.F != nil {
				// a tree of key sets only: resolve it here and write by (present) key
				o.Keys = nil
				for k, r := range v {
					if o.F.eval(&r) {
						o.Keys = append(o.Keys, k)
					}
				}
				sort.Slice(o.Keys, func(i, j int) bool { return o.Keys[i] < o.Keys[j] })
			}
			// only keys present in the view: what a bare-keys write does with missing keys
			// is a convention outside the statement
			for _, k := range o.Keys {
				if _, ok := v[k]; ok {
					targets = append(targets, k)
				}
			}
			if len(targets) == 0 {
				return
			}
			flt = gorp.MatchKeys[uint32, Row](targets...)
		}
		var err error
		if o.K == "delete" {
			err = w.s.tbl.NewDelete().Where(flt).Exec(ctx, w.tx(slot))
			w.st.Deletes++
		} else {
			err = w.s.tbl.NewUpdate().Where(flt).Change(func(_ gorp.Context, r Row) Row { return change(o, r) }).Exec(ctx, w.tx(slot))
			w.st.Updates++
		}
		if err != nil && !(errors.Is(err, query.ErrNotFound) && len(targets) == 0) {
			w.report("c17:write:error", fmt.Sprintf("%s: %v", o, err))
			w.stop = true
			return
		}
		for _, k := range targets {
			if o.K == "delete" {
				w.write(slot, k, nil)
			} else {
				nr := change(o, v[k])
				w.write(slot, k, &nr)
			}
		}
	case "reopen":
		for i := range w.txs {
			if w.txs[i] != nil {
				return // only between transactions
			}
		}
		_ = w.s.tbl.Close()
		// half of the reopens: a row written past the table (the path replicated writes
		// take) is persisted at the very moment the index observer subscribes
		var injected *Row
		done := make(chan error, 1)
		if len(o.Rows) > 0 {
			r := o.Rows[0]
			injected = &r
			fired := false
			w.s.hook.onSubscribe = func() {
				if fired {
					return
				}
				fired = true
				delivered := make(chan struct{})
				go func() {
					rows := []Row{r}
					done <- gorp.NewCreate[uint32, Row]().Entries(&rows).Exec(ctx, w.s.db)
					close(delivered)
				}()
				select { // a handler that waits for the bulk load must not hold up the subscription
				case <-delivered:
				case <-time.After(100 * time.Millisecond):
				}
			}
		}
		err := w.s.openTable(o.Wait)
		w.s.hook.onSubscribe = nil
		if err != nil {
			w.report("c17:harness:reopen-failed", err.Error())
			w.stop = true
			return
		}
		if injected != nil {
			select {
			case werr := <-done:
				if werr != nil {
					w.report("c17:write:error", fmt.Sprintf("write during reopen: %v", werr))
					w.stop = true
					return
				}
				w.write(-1, injected.K, injected)
				w.st.RawWrites++
				w.st.WritesDuringOpen++
			case <-time.After(20 * time.Second):
				w.report("c17:harness:write-during-reopen-did-not-return", "")
				w.stop = true
				return
			}
		}
		w.st.Reopens++
	case "query":
		w.checkQuery(o)
	case "ordered":
		w.checkOrdered(o)
	case "get":
		w.checkGets(w.effSlot(o.Slot))
	}
	switch o.K {
	case "commit", "abort", "failcommit", "create", "rawset", "rawdel", "reopen":
		w.verifyState(o.K)
	case "update", "delete":
		kind := o.K + "-by-key"
		if o.F != nil && !o.F.bareKeys() {
			kind = o.K + "-by-filter"
		}
		w.verifyState(kind)
	}
}

// verifyState compares what is actually stored (full scan, no filter) with the model in the
// committed view and in every open transaction's view. It runs after every write so that a
// write that selected the wrong rows (filter-driven update/delete through a broken index)
// is reported once, at the step where it happened, instead of echoing through every later
// query of the history.
func (w *world) verifyState(after string) {
	for slot := -1; slot < nSlots; slot++ {
		if slot >= 0 && w.txs[slot] == nil {
			continue
		}
		var rows []Row
		if err := w.s.tbl.NewRetrieve().Entries(&rows).Exec(w.s.ctx, w.tx(slot)); err != nil {
			w.report("c17:state:scan-error", err.Error())
			w.stop = true
			return
		}
		v := w.view(slot)
		ok := len(rows) == len(v)
		for _, r := range rows {
			if m, in := v[r.K]; !in || m != r {
				ok = false
			}
		}
		if !ok {
			vs := make([]Row, 0, len(v))
			for _, r := range v {
				vs = append(vs, r)
			}
			sort.Slice(vs, func(i, j int) bool { return vs[i].K < vs[j].K })
			view := "committed-view"
			if slot >= 0 {
				view = "tx-view"
			}
			w.report("c17:state-differs-after:"+after+":"+view, fmt.Sprintf("after %s the stored rows seen through %s are %v; the statement's view is %v", after, w.viewTag(slot), rows, vs))
			w.stop = true
			return
		}
	}
}

func change(o op, r Row) Row {
	switch o.Chg {
	case "S":
		r.S = o.ChgS
	case "N":
		r.N = o.ChgN
	case "B":
		r.B = !r.B
	}
	r.G++
	return r
}

func sortedKeys(m map[uint32]bool) []uint32 {
	out := make([]uint32, 0, len(m))
	for k := range m {
		out = append(out, k)
	}
	sort.Slice(out, func(i, j int) bool { return out[i] < out[j] })
	return out
}

func keysOf(rows []Row) (set map[uint32]bool, dups int) {
	set = map[uint32]bool{}
	for _, r := range rows {
		if set[r.K] {
			dups++
		}
		set[r.K] = true
	}
	return
}

func diffKeys(a, b map[uint32]bool) (onlyA, onlyB []uint32) {
	for k := range a {
		if !b[k] {
			onlyA = append(onlyA, k)
		}
	}
	for k := range b {
		if !a[k] {
			onlyB = append(onlyB, k)
		}
	}
	sort.Slice(onlyA, func(i, j int) bool { return onlyA[i] < onlyA[j] })
	sort.Slice(onlyB, func(i, j int) bool { return onlyB[i] < onlyB[j] })
	return
}

func (w *world) checkQuery(o op) {
	slot := w.effSlot(o.Slot)
	tx := w.tx(slot)
	v := w.view(slot)
	tag := w.viewTag(slot)
	w.st.Queries++
	if slot >= 0 && len(w.ov[slot]) > 0 {
		w.st.InTxWithOwnWrites++
	}
	if strings.Contains(tag, "others-uncommitted") {
		w.st.WithForeignUncommitted++
	}
	want := map[uint32]bool{}
	for k, r := range v {
		if o.F.eval(&r) {
			want[k] = true
		}
	}
	if len(want) > 0 {
		w.st.QueriesNonEmpty++
	}
	ctx := w.s.ctx
	desc := fmt.Sprintf("%s %s [%s]", o.Kind, o.F.String(), tag)
	ix := o.F.usesIndex()
	if ix == "" {
		ix = "none"
	}
	switch o.Kind {
	case "exec":
		var a, b []Row
		errA := w.s.tbl.NewRetrieve().Where(o.F.build(w.s, true)).Entries(&a).Exec(ctx, tx)
		errB := w.s.tbl.NewRetrieve().Where(o.F.build(w.s, false)).Entries(&b).Exec(ctx, tx)
		for _, e := range []error{errA, errB} {
			if e != nil && !(errors.Is(e, query.ErrNotFound) && o.F.bareKeys()) {
				w.report("c17:query:error", fmt.Sprintf("%s: %v", desc, e))
				return
			}
		}
		ka, dupA := keysOf(a)
		kb, dupB := keysOf(b)
		dupExplained := dupA > 0
		seenA := map[uint32]bool{}
		for i := range a {
			if seenA[a[i].K] && !o.F.repeatedValueMatches(&a[i]) {
				dupExplained = false
			}
			seenA[a[i].K] = true
		}
		if dupA > 0 && dupB == 0 && dupExplained {
			w.report(sigDupValues, fmt.Sprintf("%s: idx.Filter was given the same value twice and the indexed query returned %d entries twice %v; the scan with the equivalent predicate returns each once", desc, dupA, a))
		} else if dupA > 0 && dupB == 0 {
			w.report("c17:index-path:duplicate-entries:"+tag, fmt.Sprintf("%s: indexed query returned %d duplicate entries %v; the scan returns each once", desc, dupA, a))
		}
		if ea, eb := diffKeys(ka, kb); len(ea)+len(eb) > 0 {
			w.report("c17:index!=scan:exec:"+tag, fmt.Sprintf("%s: keys only via index %v, only via scan %v (model: %v)", desc, ea, eb, sortedKeys(want)))
		}
		if ea, ew := diffKeys(ka, want); len(ea)+len(ew) > 0 {
			w.report("c17:index!=model:exec:"+tag, fmt.Sprintf("%s: index path returned %v, the statement's view has %v", desc, sortedKeys(ka), sortedKeys(want)))
		}
		if eb, ew := diffKeys(kb, want); len(eb)+len(ew) > 0 {
			w.report("c17:scan!=model:exec:"+tag, fmt.Sprintf("%s: scan path returned %v, the statement's view has %v", desc, sortedKeys(kb), sortedKeys(want)))
		}
		for _, r := range a {
			if m, ok := v[r.K]; ok && m != r {
				w.report("c17:index-path:stale-row:"+tag, fmt.Sprintf("%s: returned %+v, the view holds %+v", desc, r, m))
				break
			}
		}
	case "count":
		ca, errA := w.s.tbl.NewRetrieve().Where(o.F.build(w.s, true)).Count(ctx, tx)
		cb, errB := w.s.tbl.NewRetrieve().Where(o.F.build(w.s, false)).Count(ctx, tx)
		if errA != nil || errB != nil {
			w.report("c17:query:error", fmt.Sprintf("%s: %v / %v", desc, errA, errB))
			return
		}
		if ca > cb && cb == len(want) && o.F.dupValueLeaf() {
			w.report(sigDupValues, fmt.Sprintf("%s: idx.Filter was given the same value twice; count via index %d, via scan %d (model %d)", desc, ca, cb, len(want)))
		} else if ca != cb {
			w.report("c17:index!=scan:count:"+tag, fmt.Sprintf("%s: count via index %d, via scan %d (model %d)", desc, ca, cb, len(want)))
		} else if ca != len(want) {
			w.report("c17:index!=model:count:"+tag, fmt.Sprintf("%s: count %d on both paths, the statement's view has %d", desc, ca, len(want)))
		}
	case "exists":
		ea, errA := w.s.tbl.NewRetrieve().Where(o.F.build(w.s, true)).Exists(ctx, tx)
		eb, errB := w.s.tbl.NewRetrieve().Where(o.F.build(w.s, false)).Exists(ctx, tx)
		if errA != nil || errB != nil {
			w.report("c17:query:error", fmt.Sprintf("%s: %v / %v", desc, errA, errB))
			return
		}
		if ea != eb {
			w.report("c17:index!=scan:exists:"+tag, fmt.Sprintf("%s: exists via index %v, via scan %v (model %v)", desc, ea, eb, len(want) > 0))
		} else if !o.F.bareKeys() && ea != (len(want) > 0) {
			w.report("c17:index!=model:exists:"+tag, fmt.Sprintf("%s: exists %v on both paths, the statement's view has %d matching rows", desc, ea, len(want)))
		}
	}
}

// checkGets compares LookupIndex.Get / SortedIndex.Get for every value of the universe
// with the rows of the view (slot<0: nil tx = committed state only).
func (w *world) checkGets(slot int) {
	w.st.Gets++
	var tx gorp.Tx
	if slot >= 0 {
		tx = w.txs[slot]
	}
	v := w.view(slot)
	tag := w.viewTag(slot)
	cmp := func(name string, got []uint32, err error, want map[uint32]bool) {
		if err != nil {
			w.report("c17:get:error", fmt.Sprintf("%s: %v", name, err))
			return
		}
		gs := map[uint32]bool{}
		dup := false
		for _, k := range got {
			if gs[k] {
				dup = true
			}
			gs[k] = true
		}
		if ea, eb := diffKeys(gs, want); len(ea)+len(eb) > 0 {
			kind := "stale-or-foreign-key"
			if len(ea) == 0 {
				kind = "missing-key"
			}
			w.report("c17:index-get:"+kind+":"+tag, fmt.Sprintf("%s = %v, rows in view with that value: %v", name, got, sortedKeys(want)))
		} else if dup {
			w.report("c17:index-get:duplicate-key:"+tag, fmt.Sprintf("%s = %v", name, got))
		}
	}
	for _, sv := range sVals {
		want := map[uint32]bool{}
		for k, r := range v {
			if r.S == sv {
				want[k] = true
			}
		}
		got, err := w.s.idxS.Get(tx, sv)
		cmp(fmt.Sprintf("idxS.Get(%q)", sv), got, err, want)
	}
	for _, bv := range []bool{false, true} {
		want := map[uint32]bool{}
		for k, r := range v {
			if r.B == bv {
				want[k] = true
			}
		}
		got, err := w.s.idxB.Get(tx, bv)
		cmp(fmt.Sprintf("idxB.Get(%v)", bv), got, err, want)
	}
	for _, nv := range nVals {
		want := map[uint32]bool{}
		for k, r := range v {
			if r.N == nv {
				want[k] = true
			}
		}
		got, err := w.s.idxN.Get(tx, nv)
		cmp(fmt.Sprintf("idxN.Get(%d)", nv), got, err, want)
	}
}

// checkOrdered: ordered cursor pagination over the sorted index must equal
// sort-then-slice over the rows of the view. Ties (equal N) may come in any order. Only
// asked in views without own uncommitted writes (the statement promises own-write
// visibility for equality queries only).
func (w *world) checkOrdered(o op) {
	slot := w.effSlot(o.Slot)
	if slot >= 0 && len(w.ov[slot]) > 0 {
		return
	}
	w.st.Ordered++
	tx := w.tx(slot)
	v := w.view(slot)
	tag := w.viewTag(slot)
	dir := gorp.DirectionAsc
	if o.Desc {
		dir = gorp.DirectionDesc
	}
	oq := w.s.idxN.Ordered(dir)
	if o.HasCur {
		oq = oq.After(o.Cur)
	}
	q := w.s.tbl.NewRetrieve().OrderBy(oq)
	if o.Limit > 0 {
		q = q.Limit(o.Limit)
	}
	if o.F != nil {
		q = q.Where(o.F.build(w.s, true))
	}
	var got []Row
	if err := q.Entries(&got).Exec(w.s.ctx, tx); err != nil {
		w.report("c17:ordered:error", fmt.Sprintf("%s: %v", o, err))
		return
	}
	// reference: filter, sort by N, cut at the cursor, slice
	var cand []Row
	for _, r := range v {
		if o.F != nil && !o.F.eval(&r) {
			continue
		}
		if o.HasCur && ((!o.Desc && r.N <= o.Cur) || (o.Desc && r.N >= o.Cur)) {
			continue
		}
		cand = append(cand, r)
	}
	sort.Slice(cand, func(i, j int) bool {
		if o.Desc {
			return cand[i].N > cand[j].N
		}
		return cand[i].N < cand[j].N
	})
	wantN := []int{}
	for i, r := range cand {
		if o.Limit > 0 && i >= o.Limit {
			break
		}
		wantN = append(wantN, r.N)
	}
	gotN := []int{}
	seen := map[uint32]bool{}
	bad := ""
	for _, r := range got {
		gotN = append(gotN, r.N)
		m, ok := v[r.K]
		switch {
		case seen[r.K]:
			bad = fmt.Sprintf("key %d returned twice", r.K)
		case !ok:
			bad = fmt.Sprintf("key %d is not in the view", r.K)
		case m != r:
			bad = fmt.Sprintf("row %+v differs from the view's %+v", r, m)
		case o.F != nil && !o.F.eval(&r):
			bad = fmt.Sprintf("row %+v does not match the filter", r)
		}
		seen[r.K] = true
	}
	desc := fmt.Sprintf("%s [%s]", o, tag)
	if bad != "" {
		w.report("c17:ordered:wrong-row:"+tag, desc+": "+bad)
		return
	}
	if o.F != nil && o.Limit > 0 {
		// OrderBy + Where + Limit: gorp documents (retrieve.go execOrdered, order_by.go
		// walkOrder) and pins in its own suite (index_test.go "Should compose with a Where
		// post-filter") that the limit bounds the WALK and the filter is applied afterwards,
		// so a page may be shorter than filter-then-slice. The statement's list of indexed
		// query shapes does not name this composition, so only soundness is demanded here:
		// rows are in the view, match the filter (checked above), come in order, and are a
		// subsequence-by-value of the filtered, sorted candidates. The shortfall is counted.
		for i := 1; i < len(gotN); i++ {
			if (!o.Desc && gotN[i-1] > gotN[i]) || (o.Desc && gotN[i-1] < gotN[i]) {
				w.report("c17:ordered:sequence-differs:"+tag, fmt.Sprintf("%s: N sequence %v is not ordered", desc, gotN))
				return
			}
		}
		if len(gotN) > o.Limit {
			w.report("c17:ordered:sequence-differs:"+tag, fmt.Sprintf("%s: %d rows exceed the limit", desc, len(gotN)))
			return
		}
		if len(gotN) < len(wantN) {
			w.st.OrderedShort++
		}
		return
	}
	if fmt.Sprint(gotN) != fmt.Sprint(wantN) {
		w.report("c17:ordered:sequence-differs:"+tag, fmt.Sprintf("%s: N sequence %v, sort-then-slice over the view gives %v", desc, gotN, wantN))
	}
}

// ---------------------------------------------------------------------------------------
// generation

func genRow(r *prng.R, k uint32) Row {
	return Row{K: k, S: prng.Pick(r, sVals), B: r.Bool(), N: prng.Pick(r, nVals), G: r.Intn(6)}
}

func genScript(r *prng.R) script {
	nk := r.Range(3, 12)
	keys := make([]uint32, nk)
	for i := range keys {
		keys[i] = uint32(i + 1)
	}
	var sc script
	if r.Chance(1, 2) {
		n := r.Range(1, nk)
		perm := append([]uint32{}, keys...)
		prng.Shuffle(r, perm)
		for _, k := range perm[:n] {
			sc.Pre = append(sc.Pre, genRow(r, k))
		}
	}
	sc.Wait = r.Chance(1, 3)
	dup := r.Chance(1, 5) // some histories pass duplicate values to idx.Filter
	slots := r.Range(1, nSlots)
	open := make([]bool, nSlots)
	pickSlot := func() int {
		// direct-on-DB or one of the open slots
		var os []int
		for i := 0; i < slots; i++ {
			if open[i] {
				os = append(os, i)
			}
		}
		if len(os) == 0 || r.Chance(1, 4) {
			return -1
		}
		return os[r.Intn(len(os))]
	}
	pickKeys := func(lo, hi int) []uint32 {
		n := r.Range(lo, hi)
		m := map[uint32]bool{}
		for i := 0; i < n; i++ {
			m[prng.Pick(r, keys)] = true
		}
		return sortedKeys(m)
	}
	n := r.Range(20, 100)
	for len(sc.Ops) < n {
		x := r.Intn(100)
		switch {
		case x < 10:
			s := r.Intn(slots)
			if !open[s] {
				sc.Ops = append(sc.Ops, op{K: "begin", Slot: s})
				open[s] = true
			} else if r.Chance(1, 8) {
				sc.Ops = append(sc.Ops, op{K: "failcommit", Slot: s})
				open[s] = false
			} else if r.Chance(2, 3) {
				sc.Ops = append(sc.Ops, op{K: "commit", Slot: s})
				open[s] = false
			} else {
				sc.Ops = append(sc.Ops, op{K: "abort", Slot: s})
				open[s] = false
			}
		case x < 22:
			var rows []Row
			for _, k := range pickKeys(1, 3) {
				rows = append(rows, genRow(r, k))
			}
			sc.Ops = append(sc.Ops, op{K: "create", Slot: pickSlot(), Rows: rows})
		case x < 36:
			o := op{K: "update", Slot: pickSlot(), Chg: prng.Pick(r, []string{"S", "S", "N", "N", "B", "G"}), ChgS: prng.Pick(r, sVals), ChgN: prng.Pick(r, nVals)}
			if r.Chance(1, 3) {
				f := genTree(r, 1, keys, false)
				o.F = &f
			} else {
				o.Keys = pickKeys(1, 3)
			}
			sc.Ops = append(sc.Ops, o)
		case x < 44:
			o := op{K: "delete", Slot: pickSlot()}
			if r.Chance(1, 3) {
				f := genTree(r, 1, keys, false)
				o.F = &f
			} else {
				o.Keys = pickKeys(1, 2)
			}
			sc.Ops = append(sc.Ops, o)
		case x < 48:
			var rows []Row
			for _, k := range pickKeys(1, 2) {
				rows = append(rows, genRow(r, k))
			}
			sc.Ops = append(sc.Ops, op{K: "rawset", Slot: -1, Rows: rows})
		case x < 50:
			sc.Ops = append(sc.Ops, op{K: "rawdel", Slot: -1, Keys: pickKeys(1, 2)})
		case x < 52:
			ro := op{K: "reopen", Slot: -1, Wait: r.Chance(1, 3)}
			if r.Bool() {
				ro.Rows = []Row{genRow(r, pickKeys(1, 1)[0])}
			}
			sc.Ops = append(sc.Ops, ro)
		case x < 86:
			f := genTree(r, 3, keys, dup)
			sc.Ops = append(sc.Ops, op{K: "query", Slot: pickSlot(), Kind: prng.Pick(r, []string{"exec", "exec", "exec", "count", "exists"}), F: &f})
		case x < 95:
			o := op{K: "ordered", Slot: pickSlot(), Desc: r.Bool(), HasCur: r.Chance(1, 2), Cur: r.Range(-1, 5), Limit: r.Intn(5)}
			if r.Chance(1, 4) {
				f := genTree(r, 1, keys, false)
				o.F = &f
			}
			sc.Ops = append(sc.Ops, o)
		default:
			sc.Ops = append(sc.Ops, op{K: "get", Slot: pickSlot()})
		}
	}
	// end all transactions in a random order, half of the time leave them to be aborted by
	// the end-of-history sweep
	if r.Bool() {
		order := []int{0, 1, 2, 3}
		prng.Shuffle(r, order)
		for _, s := range order {
			if s < slots && open[s] {
				k := "commit"
				if r.Chance(1, 3) {
					k = "abort"
				}
				sc.Ops = append(sc.Ops, op{K: k, Slot: s})
			}
		}
	}
	return sc
}

// ---------------------------------------------------------------------------------------
// minimisation

func hasSig(fs []finding, sig string) bool {
	for _, f := range fs {
		if f.Sig == sig {
			return true
		}
	}
	return false
}

func minimise(sc script, sig string) script {
	test := func(ops []op, pre []Row) bool {
		return hasSig(runScript(script{Pre: pre, Wait: sc.Wait, Ops: ops}, nil), sig)
	}
	ops, pre := sc.Ops, sc.Pre
	for _, f := range runScript(sc, nil) {
		if f.Sig == sig && f.At+1 < len(ops) {
			if test(ops[:f.At+1], pre) {
				ops = ops[:f.At+1]
			}
			break
		}
	}
	n := 2
	for len(ops) >= 2 {
		chunk := (len(ops) + n - 1) / n
		reduced := false
		for i := 0; i < len(ops); i += chunk {
			j := min(i+chunk, len(ops))
			cand := append(append([]op{}, ops[:i]...), ops[j:]...)
			if test(cand, pre) {
				ops = cand
				if n > 2 {
					n--
				}
				reduced = true
				break
			}
		}
		if !reduced {
			if chunk == 1 {
				break
			}
			n = min(n*2, len(ops))
		}
	}
	for i := 0; i < len(pre); {
		cand := append(append([]Row{}, pre[:i]...), pre[i+1:]...)
		if test(ops, cand) {
			pre = cand
		} else {
			i++
		}
	}
	return script{Pre: pre, Wait: sc.Wait, Ops: ops}
}

// ---------------------------------------------------------------------------------------
// layers

type sigCounter struct {
	mu sync.Mutex
	n  map[string]int
}

func (s *sigCounter) first(sig string, k int) bool {
	s.mu.Lock()
	defer s.mu.Unlock()
	if s.n == nil {
		s.n = map[string]int{}
	}
	s.n[sig]++
	return s.n[sig] <= k
}

var sigs sigCounter

type witness struct {
	Original  int      `json:"original_ops"`
	Minimised []string `json:"minimised_script,omitempty"`
	Script    script   `json:"script"`
}

type deferredViolation struct {
	layer     string
	c         int
	sig, what string
	wit       any
}

var (
	deferredMu sync.Mutex
	deferred   []deferredViolation
)

func flushDeferred(h *harness.H) {
	deferredMu.Lock()
	l := deferred
	deferred = nil
	deferredMu.Unlock()
	sort.SliceStable(l, func(i, j int) bool { return l[i].c < l[j].c })
	for _, v := range l {
		h.Violation(v.layer, v.c, v.sig, v.what, v.wit)
	}
}

func reportFindings(h *harness.H, layer string, c int, sc script, fs []finding) {
	seen := map[string]bool{}
	for _, f := range fs {
		if seen[f.Sig] {
			continue
		}
		seen[f.Sig] = true
		if sigs.first(f.Sig, 3) {
			ms := minimise(sc, f.Sig)
			wit := witness{Original: len(sc.Ops), Script: ms}
			for _, o := range ms.Ops {
				wit.Minimised = append(wit.Minimised, o.String())
			}
			what := f.What
			for _, mf := range runScript(ms, nil) {
				if mf.Sig == f.Sig {
					what = fmt.Sprintf("%s | minimal history: pre=%v; %s", mf.What, ms.Pre, strings.Join(wit.Minimised, "; "))
					break
				}
			}
			h.Violation(layer, c, f.Sig, what, wit)
			continue
		}
		deferredMu.Lock()
		deferred = append(deferred, deferredViolation{layer, c, f.Sig, f.What, witness{Original: len(sc.Ops), Script: sc}})
		deferredMu.Unlock()
	}
}

func scriptKey(sc script) string {
	var sb strings.Builder
	fmt.Fprint(&sb, sc.Pre, sc.Wait)
	for _, o := range sc.Ops {
		sb.WriteString(o.String())
		sb.WriteByte(';')
	}
	return sb.String()
}

func addStats(h *harness.H, st *stats) {
	h.Count("ops", st.Ops)
	h.Count("queries_compared_3way", st.Queries)
	h.Count("queries_nonempty_expected", st.QueriesNonEmpty)
	h.Count("queries_in_tx_with_own_uncommitted_writes", st.InTxWithOwnWrites)
	h.Count("queries_while_other_tx_has_uncommitted_writes", st.WithForeignUncommitted)
	h.Count("ordered_pagination_queries", st.Ordered)
	h.Count("index_get_sweeps", st.Gets)
	h.Count("tx_commits", st.Commits)
	h.Count("tx_aborts", st.Aborts)
	h.Count("tx_commits_refused_by_the_store", st.FailedCommits)
	h.Count("raw_writes_persisted_while_the_index_observer_subscribes", st.WritesDuringOpen)
	h.Count("table_reopens_bulk_populate", st.Reopens)
	h.Count("observer_propagated_writes", st.RawWrites)
	h.Count("creates", st.Creates)
	h.Count("updates", st.Updates)
	h.Count("deletes", st.Deletes)
	h.Count("writes_selected_by_filter", st.FilterUpdates)
	h.Count("ordered_where_limit_pages_shorter_than_filter_then_slice", st.OrderedShort)
}

func layerSeq(h *harness.H) {
	h.AddRule("seq: one case = one PRNG-generated single-goroutine history (20-100 ops over 3-12 keys, up to 4 interleaved transactions, optional pre-existing rows = bulk populate, raw observer-propagated writes, table reopen) with embedded queries (filter trees of depth <=3 over 2 lookup + 1 sorted index, key sets, predicates, And/Or/Not; exec/count/exists; ordered pagination; index Get sweeps); distinct = distinct script; non-trivial = >=1 query with a non-empty expected result and >=1 commit or pre-existing row")
	h.Assume("ordered pagination is only asked in views without own uncommitted writes (the statement promises own-write visibility for equality queries only; gorp documents that ordered walks read committed index state)")
	h.Assume("OrderBy+Where+Limit: gorp documents and pins in its own suite that the limit bounds the walk and the filter is applied afterwards; only soundness (rows in view, match filter, ordered, <= limit) is demanded and the shortfall is counted")
	h.Assume("bare key-set queries (MatchKeys combined by And/Or only): ErrNotFound for missing keys is accepted and Exists is compared between the two paths only (documented conventions outside the statement)")
	h.Assume("raw (index-less) writes go straight to the store outside any transaction, as replicated writes do")
	n := h.N(3000, 150000)
	parallel(h, "seq", n, func(c int) {
		r := h.Rand("seq", c)
		sc := genScript(r)
		st := &stats{}
		h.Eval()
		fs := runScript(sc, st)
		addStats(h, st)
		for _, o := range sc.Ops {
			if o.K == "query" {
				h.Seen("filter_shapes", o.F.shape())
			}
		}
		if st.QueriesNonEmpty > 0 && (st.Commits > 0 || len(sc.Pre) > 0) {
			h.Distinct(scriptKey(sc))
		}
		if c < 3 {
			var lines []string
			for _, o := range sc.Ops {
				lines = append(lines, o.String())
			}
			h.Sample(map[string]any{"layer": "seq", "case": c, "preexisting": sc.Pre, "script": lines})
		}
		if len(fs) > 0 {
			reportFindings(h, "seq", c, sc, fs)
		}
	})
	flushDeferred(h)
}

func parallel(h *harness.H, layer string, n int, f func(c int)) {
	workers := runtime.GOMAXPROCS(0)
	if _, rep := h.Replaying(); rep {
		workers = 1
	}
	var wg sync.WaitGroup
	ch := make(chan int, 64)
	for i := 0; i < workers; i++ {
		wg.Add(1)
		go func() {
			defer wg.Done()
			for c := range ch {
				f(c)
			}
		}()
	}
	for c := 0; c < n; c++ {
		if h.Skip(layer, c) {
			continue
		}
		ch <- c
	}
	close(ch)
	wg.Wait()
}
