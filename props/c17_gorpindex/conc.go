package main

// Concurrent variant: G goroutines share one table. Each goroutine owns a block of private
// keys (only it writes them, so a per-goroutine reference model is exact for them at every
// point of its own program order) and all goroutines write a small set of shared keys
// (whose final state is only checked for consistency). Every goroutine runs its own
// transactions; nothing is shared between transactions of different goroutines.
//
// Oracles (none uses the clock):
//   * inside a transaction, and between transactions with a nil tx, equality queries
//     restricted to the goroutine's private keys are answered through the index, through a
//     scan, and by the goroutine's model: all three must agree (read-your-own-writes,
//     nobody else's writes, commit visible, abort invisible);
//   * at quiescence (all goroutines joined): for every indexed value, Get(nil, v) must be
//     exactly the keys a full scan finds with that value (an index entry for a deleted or
//     aborted row, or a row missing from its bucket, is a violation), indexed and scanned
//     filter queries over the whole table must agree, private rows must equal the models,
//     and every shared row must be a value some committed transaction wrote last to it.

import (
	"fmt"
	"os"
	"runtime"
	"sort"
	"sync"

	"github.com/synnaxlabs/x/gorp"

	"verif/lib/harness"
	"verif/lib/prng"
)

const (
	concG       = 4
	concPrivate = 4
	concShared  = 3
)

type concEvent struct {
	G    int    `json:"g"`
	What string `json:"what"`
}

type concResult struct {
	findings []finding
	log      []concEvent
	queries  int
	commits  int
	aborts   int
	// values committed to shared keys (key -> set of row renderings, "" = deleted)
	sharedCommitted map[uint32]map[string]bool
	private         map[uint32]Row
}

func rowStr(r *Row) string {
	if r == nil {
		return ""
	}
	return fmt.Sprintf("%+v", *r)
}

func concWorker(s *store, g int, r *prng.R, nTx int, res *concResult) {
	priv := make([]uint32, concPrivate)
	for i := range priv {
		priv[i] = uint32(100*(g+1) + i + 1)
	}
	shared := make([]uint32, concShared)
	for i := range shared {
		shared[i] = uint32(i + 1)
	}
	com := map[uint32]Row{} // committed private rows
	res.sharedCommitted = map[uint32]map[string]bool{}
	report := func(sig, what string) {
		res.findings = append(res.findings, finding{Sig: sig, What: fmt.Sprintf("goroutine %d: %s", g, what)})
	}
	logf := func(f string, a ...any) {
		if len(res.log) < 400 {
			res.log = append(res.log, concEvent{G: g, What: fmt.Sprintf(f, a...)})
		}
	}
	privFilter := fnode{T: "keys", KV: priv}
	check := func(tx gorp.Tx, view map[uint32]Row, where string) {
		// one random index leaf AND-ed with the private key set; sometimes negated / or-ed
		var leaf fnode
		switch r.Intn(3) {
		case 0:
			leaf = fnode{T: "S", SV: []string{prng.Pick(r, sVals)}}
		case 1:
			leaf = fnode{T: "B", BV: []bool{r.Bool()}}
		default:
			leaf = fnode{T: "N", NV: []int{prng.Pick(r, nVals), prng.Pick(r, nVals)}}
		}
		inner := leaf
		switch r.Intn(4) {
		case 0:
			inner = fnode{T: "not", Kids: []fnode{leaf}}
		case 1:
			inner = fnode{T: "or", Kids: []fnode{leaf, {T: "pred", P: r.Intn(3)}}}
		}
		f := fnode{T: "and", Kids: []fnode{privFilter, inner}}
		var a, b []Row
		t := tx
		if t == nil {
			t = s.db
		}
		errA := s.tbl.NewRetrieve().Where(f.build(s, true)).Entries(&a).Exec(s.ctx, t)
		errB := s.tbl.NewRetrieve().Where(f.build(s, false)).Entries(&b).Exec(s.ctx, t)
		res.queries++
		if errA != nil || errB != nil {
			report("c17:conc:query-error", fmt.Sprintf("%s %s: %v / %v", where, f.String(), errA, errB))
			return
		}
		want := map[uint32]bool{}
		for k, row := range view {
			if f.eval(&row) {
				want[k] = true
			}
		}
		ka, _ := keysOf(a)
		kb, _ := keysOf(b)
		if x, y := diffKeys(ka, want); len(x)+len(y) > 0 {
			report("c17:conc:index!=model:"+where, fmt.Sprintf("%s: index path %v, own view %v (scan path %v)", f.String(), sortedKeys(ka), sortedKeys(want), sortedKeys(kb)))
		} else if x, y := diffKeys(kb, want); len(x)+len(y) > 0 {
			report("c17:conc:scan!=model:"+where, fmt.Sprintf("%s: scan path %v, own view %v", f.String(), sortedKeys(kb), sortedKeys(want)))
		}
	}
	for t := 0; t < nTx; t++ {
		tx := s.db.OpenTx()
		ov := map[uint32]*Row{}
		sharedOv := map[uint32]*Row{}
		view := func() map[uint32]Row {
			v := map[uint32]Row{}
			for k, row := range com {
				v[k] = row
			}
			for k, row := range ov {
				if row == nil {
					delete(v, k)
				} else {
					v[k] = *row
				}
			}
			return v
		}
		nw := r.Range(1, 5)
		failed := false
		for i := 0; i < nw && !failed; i++ {
			var k uint32
			isShared := r.Chance(1, 3)
			if isShared {
				k = prng.Pick(r, shared)
			} else {
				k = prng.Pick(r, priv)
			}
			var err error
			switch r.Intn(4) {
			case 0, 1: // create / overwrite
				row := genRow(r, k)
				err = s.tbl.NewCreate().Entry(&row).Exec(s.ctx, tx)
				if isShared {
					sharedOv[k] = &row
				} else {
					ov[k] = &row
				}
				logf("tx%d create %+v", t, row)
			case 2: // update private (exact) — shared rows are overwritten, not read-modified
				if isShared {
					row := genRow(r, k)
					err = s.tbl.NewCreate().Entry(&row).Exec(s.ctx, tx)
					sharedOv[k] = &row
					logf("tx%d create %+v", t, row)
					break
				}
				cur, ok := view()[k]
				if !ok {
					continue
				}
				o := op{Chg: prng.Pick(r, []string{"S", "N", "B"}), ChgS: prng.Pick(r, sVals), ChgN: prng.Pick(r, nVals)}
				err = s.tbl.NewUpdate().Where(gorp.MatchKeys[uint32, Row](k)).Change(func(_ gorp.Context, x Row) Row { return change(o, x) }).Exec(s.ctx, tx)
				nr := change(o, cur)
				ov[k] = &nr
				logf("tx%d update %d -> %+v", t, k, nr)
			case 3:
				err = s.tbl.NewDelete().Where(gorp.MatchKeys[uint32, Row](k)).Exec(s.ctx, tx)
				if isShared {
					sharedOv[k] = nil
				} else {
					ov[k] = nil
				}
				logf("tx%d delete %d", t, k)
			}
			if err != nil {
				report("c17:conc:write-error", err.Error())
				failed = true
			}
			if r.Chance(1, 2) {
				runtime.Gosched()
			}
			if r.Chance(1, 2) {
				check(tx, view(), "in-tx")
			}
		}
		if failed {
			_ = tx.Close()
			return
		}
		if r.Chance(7, 10) {
			if err := tx.Commit(s.ctx); err != nil {
				report("c17:conc:commit-error", err.Error())
				_ = tx.Close()
				return
			}
			_ = tx.Close()
			for k, row := range ov {
				if row == nil {
					delete(com, k)
				} else {
					com[k] = *row
				}
			}
			for k, row := range sharedOv {
				if res.sharedCommitted[k] == nil {
					res.sharedCommitted[k] = map[string]bool{}
				}
				res.sharedCommitted[k][rowStr(row)] = true
			}
			res.commits++
			logf("tx%d commit", t)
		} else {
			_ = tx.Close()
			res.aborts++
			logf("tx%d abort", t)
		}
		if r.Chance(1, 2) {
			runtime.Gosched()
		}
		// between transactions, committed view through the DB (nil tx for Get)
		check(nil, com, "after-tx")
	}
	res.private = com
}

func runConc(seedR func(g int) *prng.R, nTx int) (fs []finding, log []concEvent, queries, commits, aborts int) {
	s, err := openStore(nil, false)
	if err != nil {
		return []finding{{Sig: "c17:harness:open-failed", What: err.Error()}}, nil, 0, 0, 0
	}
	defer s.close()
	results := make([]*concResult, concG)
	var wg sync.WaitGroup
	for g := 0; g < concG; g++ {
		results[g] = &concResult{}
		wg.Add(1)
		go func(g int) {
			defer wg.Done()
			defer func() {
				if p := recover(); p != nil {
					results[g].findings = append(results[g].findings, finding{Sig: "c17:conc:panic", What: fmt.Sprint(p)})
				}
			}()
			concWorker(s, g, seedR(g), nTx, results[g])
		}(g)
	}
	wg.Wait()
	// ---- quiescent point ----
	report := func(sig, what string) { fs = append(fs, finding{Sig: sig, What: what}) }
	sharedOK := map[uint32]map[string]bool{}
	priv := map[uint32]Row{}
	for _, r := range results {
		fs = append(fs, r.findings...)
		log = append(log, r.log...)
		queries += r.queries
		commits += r.commits
		aborts += r.aborts
		for k, m := range r.sharedCommitted {
			if sharedOK[k] == nil {
				sharedOK[k] = map[string]bool{"": true} // never created / deleted
			}
			for v := range m {
				sharedOK[k][v] = true
			}
		}
		for k, row := range r.private {
			priv[k] = row
		}
	}
	var all []Row
	if err := s.tbl.NewRetrieve().Entries(&all).Exec(s.ctx, s.db); err != nil {
		report("c17:conc:scan-error", err.Error())
		return
	}
	byKey := map[uint32]Row{}
	for _, r := range all {
		byKey[r.K] = r
	}
	for k, want := range priv {
		if got, ok := byKey[k]; !ok || got != want {
			report("c17:conc:private-row-differs-at-quiescence", fmt.Sprintf("key %d: stored %+v (present=%v), its only writer committed %+v", k, got, ok, want))
		}
	}
	for k, got := range byKey {
		if k >= 100 {
			if _, ok := priv[k]; !ok {
				report("c17:conc:private-row-survives-delete-or-abort", fmt.Sprintf("key %d: stored %+v, its only writer has no committed row", k, got))
			}
			continue
		}
		g := got
		if m := sharedOK[k]; m == nil || !m[rowStr(&g)] {
			report("c17:conc:shared-row-never-committed", fmt.Sprintf("key %d: stored %+v was never the committed write of any transaction", k, got))
		}
	}
	var stale []string
	cmp := func(name string, got []uint32, err error, want map[uint32]bool) {
		if err != nil {
			report("c17:conc:get-error", fmt.Sprintf("%s: %v", name, err))
			return
		}
		gs := map[uint32]bool{}
		for _, k := range got {
			gs[k] = true
		}
		if ea, eb := diffKeys(gs, want); len(ea)+len(eb) > 0 {
			stale = append(stale, fmt.Sprintf("%s = %v but a full scan finds %v with that value", name, sortedU(got), sortedKeys(want)))
		}
	}
	for _, sv := range sVals {
		want := map[uint32]bool{}
		for _, r := range all {
			if r.S == sv {
				want[r.K] = true
			}
		}
		got, err := s.idxS.Get(nil, sv)
		cmp(fmt.Sprintf("idxS.Get(%q)", sv), got, err, want)
	}
	for _, bv := range []bool{false, true} {
		want := map[uint32]bool{}
		for _, r := range all {
			if r.B == bv {
				want[r.K] = true
			}
		}
		got, err := s.idxB.Get(nil, bv)
		cmp(fmt.Sprintf("idxB.Get(%v)", bv), got, err, want)
	}
	for _, nv := range nVals {
		want := map[uint32]bool{}
		for _, r := range all {
			if r.N == nv {
				want[r.K] = true
			}
		}
		got, err := s.idxN.Get(nil, nv)
		cmp(fmt.Sprintf("idxN.Get(%d)", nv), got, err, want)
	}
	if len(stale) > 0 {
		report("c17:conc:quiescent:index!=scan", "after all transactions ended: "+stringsJoin(stale, "; "))
		return
	}
	// ordered walk at quiescence
	var ord []Row
	if err := s.tbl.NewRetrieve().OrderBy(s.idxN.Ordered(gorp.DirectionAsc)).Entries(&ord).Exec(s.ctx, s.db); err != nil {
		report("c17:conc:ordered-error", err.Error())
	} else {
		ok := len(ord) == len(all)
		for i := 1; i < len(ord) && ok; i++ {
			ok = ord[i-1].N <= ord[i].N
		}
		for _, r := range ord {
			if byKey[r.K] != r {
				ok = false
			}
		}
		if !ok {
			report("c17:conc:quiescent:ordered-walk-differs", fmt.Sprintf("ordered walk %v vs scan %v", ord, all))
		}
	}
	return
}

func stringsJoin(xs []string, sep string) string {
	out := ""
	for i, x := range xs {
		if i > 0 {
			out += sep
		}
		out += x
	}
	return out
}

func sortedU(xs []uint32) []uint32 {
	out := append([]uint32{}, xs...)
	sort.Slice(out, func(i, j int) bool { return out[i] < out[j] })
	return out
}

func layerConc(h *harness.H) {
	h.AddRule(fmt.Sprintf("conc: one case = %d goroutines x 12 (quick) transactions each on one table (%d private keys per goroutine, %d shared keys), PRNG-chosen writes, Gosched points, in-tx and after-tx 3-way queries on private keys, quiescent index==scan sweep; distinct = distinct (seed,case) program with >=1 commit; run with GOMAXPROCS cycling 1,2,4,16", concG, concPrivate, concShared))
	n := h.N(150, 4000)
	nTx := 12
	if h.Thorough() {
		nTx = 30
	}
	procs := []int{1, 2, 4, 16}
	orig := runtime.GOMAXPROCS(0)
	defer runtime.GOMAXPROCS(orig)
	for c := 0; c < n; c++ {
		if h.Skip("conc", c) {
			continue
		}
		runtime.GOMAXPROCS(procs[c%len(procs)])
		h.Eval()
		fs, log, q, commits, aborts := runConc(func(g int) *prng.R { return prng.New(h.Seed(), fmt.Sprintf("C17/conc/g%d", g), c) }, nTx)
		h.Count("conc_queries_compared_3way", q)
		h.Count("conc_tx_commits", commits)
		h.Count("conc_tx_aborts", aborts)
		h.Count("conc_histories", 1)
		if commits > 0 && q > 0 {
			h.Distinct(fmt.Sprintf("conc/%d/%d", h.Seed(), c))
		}
		seen := map[string]bool{}
		for _, f := range fs {
			if seen[f.Sig] {
				continue
			}
			seen[f.Sig] = true
			h.Violation("conc", c, f.Sig, f.What, map[string]any{"gomaxprocs": procs[c%len(procs)], "event_log": log})
		}
	}
}

// layerPair is the smallest concurrent shape: two goroutines, one transaction each, both
// write the SAME row with different indexed values and commit at the same time (released
// by a barrier). After both commits returned, the row has one of the two values; the
// statement requires the index to say the same as the scan.
func layerPair(h *harness.H) {
	h.AddRule("pair: one case = 40 (quick) rounds of two goroutines committing one transaction each to the same row at the same time on a fresh table; distinct = (seed,case); non-trivial = both commits succeeded in every round")
	n := h.N(60, 3000)
	rounds := 40
	orig := runtime.GOMAXPROCS(0)
	defer runtime.GOMAXPROCS(orig)
	procs := []int{2, 4, 16}
	// Control experiment (not a fix, not used by ./check): with VERIF_C17_SERIALIZE_COMMITS=1
	// the two Commit calls are serialised by the monitor. If the stale index disappears,
	// the cause is the interleaving of the commits' KV apply / observer / delta-flush steps.
	var commitMu sync.Mutex
	serialize := os.Getenv("VERIF_C17_SERIALIZE_COMMITS") != ""
	for c := 0; c < n; c++ {
		if h.Skip("pair", c) {
			continue
		}
		runtime.GOMAXPROCS(procs[c%len(procs)])
		h.Eval()
		r := h.Rand("pair", c)
		s, err := openStore(nil, true)
		if err != nil {
			h.Violation("pair", c, "c17:harness:open-failed", err.Error(), nil)
			return
		}
		ok := true
		for round := 0; round < rounds && ok; round++ {
			k := uint32(round + 1)
			rows := [2]Row{genRow(r, k), genRow(r, k)}
			rows[1].N = (rows[0].N + 1 + r.Intn(4)) % 5
			rows[1].S = sVals[(indexOfS(rows[0].S)+1+r.Intn(3))%4]
			update := r.Bool() // second shape: the row pre-exists and both update it
			if update {
				base := genRow(r, k)
				if err := s.tbl.NewCreate().Entry(&base).Exec(s.ctx, s.db); err != nil {
					ok = false
					break
				}
			}
			var wg sync.WaitGroup
			start := make(chan struct{})
			errs := [2]error{}
			for g := 0; g < 2; g++ {
				wg.Add(1)
				go func(g int) {
					defer wg.Done()
					tx := s.db.OpenTx()
					row := rows[g]
					errs[g] = s.tbl.NewCreate().Entry(&row).Exec(s.ctx, tx)
					<-start
					if errs[g] == nil {
						if serialize {
							commitMu.Lock()
						}
						errs[g] = tx.Commit(s.ctx)
						if serialize {
							commitMu.Unlock()
						}
					}
					_ = tx.Close()
				}(g)
			}
			close(start)
			wg.Wait()
			h.Count("pair_rounds", 1)
			if errs[0] != nil || errs[1] != nil {
				h.Violation("pair", c, "c17:pair:commit-error", fmt.Sprint(errs), nil)
				ok = false
				break
			}
			var got Row
			if err := s.tbl.NewRetrieve().Where(gorp.MatchKeys[uint32, Row](k)).Entry(&got).Exec(s.ctx, s.db); err != nil {
				h.Violation("pair", c, "c17:pair:row-missing-after-two-commits", err.Error(), nil)
				ok = false
				break
			}
			if got != rows[0] && got != rows[1] {
				h.Violation("pair", c, "c17:pair:row-is-neither-write", fmt.Sprintf("%+v vs %+v / %+v", got, rows[0], rows[1]), nil)
			}
			ks, _ := s.idxS.Get(nil, got.S)
			kn, _ := s.idxN.Get(nil, got.N)
			var viaIdx []Row
			qErr := s.tbl.NewRetrieve().Where(s.idxN.Filter(got.N)).Entries(&viaIdx).Exec(s.ctx, s.db)
			other := rows[0]
			if got == rows[0] {
				other = rows[1]
			}
			ksOther, _ := s.idxS.Get(nil, other.S)
			knOther, _ := s.idxN.Get(nil, other.N)
			bad := []string{}
			if !containsK(ks, k) {
				bad = append(bad, fmt.Sprintf("idxS.Get(%q)=%v lacks the row", got.S, ks))
			}
			if !containsK(kn, k) {
				bad = append(bad, fmt.Sprintf("idxN.Get(%d)=%v lacks the row", got.N, kn))
			}
			if other.S != got.S && containsK(ksOther, k) {
				bad = append(bad, fmt.Sprintf("idxS.Get(%q)=%v still lists the row under the overwritten value", other.S, ksOther))
			}
			if other.N != got.N && containsK(knOther, k) {
				bad = append(bad, fmt.Sprintf("idxN.Get(%d)=%v still lists the row under the overwritten value", other.N, knOther))
			}
			if qErr == nil {
				found := false
				for _, x := range viaIdx {
					if x.K == k {
						found = true
					}
				}
				if !found {
					bad = append(bad, fmt.Sprintf("Retrieve.Where(idxN.Filter(%d)) does not return the row a scan returns", got.N))
				}
			}
			if len(bad) > 0 {
				h.Violation("pair", c, "c17:pair:same-row-concurrent-commits:index-stale-at-quiescence",
					fmt.Sprintf("two transactions wrote key %d (%+v and %+v, pre-existing=%v) and committed concurrently; both commits returned; the stored row is %+v but %s", k, rows[0], rows[1], update, got, stringsJoin(bad, "; ")),
					map[string]any{"gomaxprocs": procs[c%len(procs)], "round": round, "writes": rows, "stored": got, "preexisting_row": update})
				ok = false
			}
		}
		s.close()
		if ok {
			h.Distinct(fmt.Sprintf("pair/%d/%d", h.Seed(), c))
		} else {
			h.Distinct(fmt.Sprintf("pair/%d/%d/v", h.Seed(), c))
		}
	}
}

func indexOfS(v string) int {
	for i, x := range sVals {
		if x == v {
			return i
		}
	}
	return 0
}
